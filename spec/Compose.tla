------------------------------- MODULE Compose -------------------------------
(***************************************************************************)
(* compose(inputs, outputs) (property C19): the DAG derived from a flat    *)
(* program P that takes values for the input call sites and returns what   *)
(* the original pipeline would compute for the output call sites.          *)
(*   tawazi/_dag/dag.py : BaseDAG.compose                                  *)
(* ins / outs are sequences of call-site numbers (order matters: it is the *)
(* order of the composed DAG's arguments and of its returned tuple);       *)
(* ell = TRUE stands for inputs=... (all arguments of the original DAG).   *)
(***************************************************************************)
EXTENDS Dataflow

SeqRange(s) == {s[j] : j \in 1..Len(s)}
RefsOfSite(s) == {s.args[x] : x \in 1..Len(s.args)} \cup {s.kw[x].ref : x \in 1..Len(s.kw)} \cup {s.active}
DepSites(P, j) == {r.n : r \in {q \in RefsOfSite(P.sites[j]) : q.c = "site"}}
DepParams(P, j) == {r.n : r \in {q \in RefsOfSite(P.sites[j]) : q.c = "param"}}

RECURSIVE AncSites(_, _)
AncSites(P, j) == DepSites(P, j) \cup UNION {AncSites(P, d) : d \in DepSites(P, j)}

\* what the outputs need, stopping at the inputs
RECURSIVE NeedFrom(_, _, _)
NeedFrom(P, I, S) == LET N1 == S \cup UNION {DepSites(P, j) : j \in S \ I}
                     IN IF N1 = S THEN S ELSE NeedFrom(P, I, N1)
Needed(P, ins, outs) == NeedFrom(P, SeqRange(ins), SeqRange(outs))
NeededParams(P, ins, outs) == UNION {DepParams(P, j) : j \in Needed(P, ins, outs) \ SeqRange(ins)}

\* caller errors: ValueError
InputOnInput(P, ins) == \E a, b \in SeqRange(ins) : a \in AncSites(P, b)
Insufficient(P, ins, outs, ell) == ~ell /\ \E p \in NeededParams(P, ins, outs) : ~P.params[p].has
Duplicate(q) == \E a, b \in 1..Len(q) : a # b /\ q[a] = q[b]
Overlap(ins, outs) == SeqRange(ins) \cap SeqRange(outs) # {}          \* ambiguous (DESIGN I4b)

\* evaluation with the supplied values substituted for the input sites
RECURSIVE CSites(_, _, _, _, _, _, _, _)
CSites(P, args, j, env, exec, err, N, sub) ==
  IF j > Len(P.sites) THEN [env |-> env, exec |-> exec, err |-> err]
  ELSE IF j \in DOMAIN sub THEN CSites(P, args, j + 1, Append(env, sub[j]), exec, err, N, sub)
  ELSE IF j \notin N THEN CSites(P, args, j + 1, Append(env, VNone), exec, err, N, sub)
  ELSE
  LET s == P.sites[j]
      pos == [x \in 1..Len(s.args) |-> Resolve(s.args[x], env, args)]
      kws == [x \in 1..Len(s.kw) |-> Resolve(s.kw[x].ref, env, args)]
      flag == Resolve(s.active, env, args)
      act == s.active.c = "none" \/ Truthy(flag)
      raw == IF act THEN Apply(s.fn, pos \o kws) ELSE VNone
      bad == AnyErr(pos) \/ AnyErr(kws) \/ (s.active.c # "none" /\ IsErr(flag)) \/ IsErr(raw)
             \/ (act /\ s.unpack > 0 /\ ~(raw.k \in {"t", "l"} /\ Len(raw.s) = s.unpack))
  IN CSites(P, args, j + 1, Append(env, IF bad THEN VErr ELSE raw),
            IF act THEN exec \cup {<<j>>} ELSE exec, err \/ bad, N, sub)

\* vals: the values the composed DAG is called with (for the input sites, or for all parameters if ell)
ComposeEval(P, ins, outs, single, ell, vals) ==
  LET N == Needed(P, ins, outs)
      sub == IF ell THEN [x \in {} |-> VNone]
             ELSE [j \in SeqRange(ins) |-> vals[CHOOSE x \in 1..Len(ins) : ins[x] = j]]
      args == [p \in 1..Len(P.params) |->
                 IF ell THEN vals[p] ELSE IF P.params[p].has THEN P.params[p].v ELSE VErr]
      r == CSites(P, args, 1, <<>>, {}, FALSE, N, sub)
      res == [x \in 1..Len(outs) |-> r.env[outs[x]]]
  IN [val |-> IF single THEN res[1] ELSE VTup(res), exec |-> r.exec, err |-> r.err \/ AnyErr(res)]
=============================================================================
