CONSTANTS
 MaxOps = 5
 NI = 2
 NX = 2
 NF = 1
SPECIFICATION Spec
INVARIANT SetupOnce
INVARIANT StoredIsSetup
INVARIANT NoRecompute
CHECK_DEADLOCK FALSE
