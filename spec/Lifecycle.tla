------------------------------ MODULE Lifecycle ------------------------------
(***************************************************************************)
(* Engine E4: what a DAG instance, an executor object and a cache file     *)
(* remember between operations (properties C11, C15, C18 and the history   *)
(* half of C03).                                                           *)
(*   tawazi/_dag/dag.py : DAG.setup / run_subgraph / __call__,             *)
(*                        BaseDAGExecution (_pre_call, _post_call, cache)  *)
(*   tawazi/_dag/helpers.py : extend_results_with_args, pruning at 258     *)
(*                                                                         *)
(* The abstract state of a history:                                        *)
(*   val[i][k]   0, or the nonce of the (single) execution of setup node k *)
(*               whose value instance i holds (instances: the DAG and its  *)
(*               deep copies)                                              *)
(*   ex[x]       executor x: instance, selection, state new / ok / failed  *)
(*   cache[f]    cache file f: the set of node ids it holds, or "none"     *)
(* Every operation has an EXPECTED observation, defined here from the      *)
(* documentation and the properties; LifecycleTrace.tla compares it with   *)
(* what the real library did, LifecycleMC.tla explores the machine itself. *)
(***************************************************************************)
EXTENDS Selection

\* D additionally has: argof [1..n -> 0..np] (which DAG parameter the node takes, 0 = none),
\* np, defaults (sequence, -1 = no default), off (deactivated call sites), nonefn (functions returning None)
SetupOf(D, S) == S \cap SetupNodes(D)
DoneSet(D, v) == {k \in Nodes(D) : v[k] # 0}

\* arguments as seen by the nodes: supplied value, else the default
Effective(D, args) == [p \in 1..D.np |-> IF p <= Len(args) /\ args[p] # -1 THEN args[p] ELSE D.defaults[p]]
MissingArg(D, args) == \E p \in 1..D.np : Effective(D, args)[p] = -1
\* a regular node fails when it is handed the sentinel value 99
FailSentinel == 99
Failing(D, args, S) == {k \in S : D.argof[k] # 0 /\ Effective(D, args)[D.argof[k]] = FailSentinel}

\* nodes an execution of selection S on an instance with setup values v must enter
Runs(D, S, v) == (S \ DoneSet(D, v)) \ D.off          \* deactivated call sites are never entered

\* a failing execution enters a subset of the nodes it would run, never a dependent of a failing node
FailedRunOK(D, S, v, F, e) ==
  /\ e \subseteq Runs(D, S, v)
  /\ e \cap (DescStar(D, F) \ F) = {}

\* cache_deps_of = [n]: the file holds what n depends on but not n
CacheDepsContent(D, N) == AncStar(D, N) \ N
=============================================================================
