------------------------------ MODULE Scheduler ------------------------------
(***************************************************************************)
(* Implementation-shaped model of tawazi's scheduler                       *)
(*   tawazi/_dag/helpers.py : async_execute, wait_for_finished_nodes(_async)*)
(*   tawazi/_dag/digraph.py : root_nodes, remove_root_node                 *)
(* One action per statement group that reads or writes scheduler state;    *)
(* the `while` loop is a pc-indexed machine.  Line numbers refer to the    *)
(* pinned tree.                                                            *)
(*                                                                         *)
(*   pc        code                                                        *)
(*   head      280 `while len(graph)` and the test at 291                  *)
(*   blkA/blkC 299-309: await async futures, then thread futures (FIRST)   *)
(*   blkDone   313: `if len(runnable)==0: continue`                        *)
(*   pick      318-350: max by compound priority; sequential candidate     *)
(*             with something in flight -> drnA/drnC (332-338) and re-pick;*)
(*             removal from runnable; deactivated node stored as None      *)
(*   disp      353-371: pool submit / asyncio task / inline call           *)
(*   inline    368-371: the inline call returns or raises                  *)
(*   sqA/sqC   375-383: after a sequential node: wait for ALL futures      *)
(*   exit      385-387,  raised: an exception left the loop                *)
(*                                                                         *)
(* The configuration (shape, attributes, failing / deactivated /           *)
(* precomputed nodes) is chosen in Init, so one TLC run covers all         *)
(* configurations inside the bounds given by the constants.                *)
(* Deliberate deviations of the code from the ideal are modelled as they   *)
(* are: one kind of future is awaited at a time (the C08 known finding),   *)
(* nothing is polled between waits, an asyncio task only reaches the pool  *)
(* while the scheduler coroutine is suspended in an await.                 *)
(***************************************************************************)
EXTENDS SchedObs, TLC
CONSTANTS N,        \* number of nodes
          MCS,      \* set of max_concurrency values
          RES,      \* set of resources, subset of {"thread","async","main"}
          PRS,      \* set of own priorities
          SEQS,     \* set of values for is_sequential (subset of BOOLEAN)
          FAILS,    \* max number of failing nodes
          INACT,    \* max number of deactivated nodes
          PREMAX    \* max number of precomputed (pruned) nodes
Node == 1..N
VARIABLES deps, mc, prio, cp, seq, res, bad, off, pre,    \* configuration (fixed at Init)
          pc, graph, runnable, concRun, asyncRun, cur,    \* scheduler state
          st,                                             \* environment: state of each node function
          obsFail, outcome, both                          \* observers
cfgv == <<deps, mc, prio, cp, seq, res, bad, off, pre>>
vars == <<cfgv, pc, graph, runnable, concRun, asyncRun, cur, st, obsFail, outcome, both>>

Sel == Node \ pre
RECURSIVE DescOf(_)
DescOf(n) == LET S == {m \in Node : n \in deps[m]} IN S \cup UNION {DescOf(m) : m \in S}
RECURSIVE SumPrio(_)
SumPrio(S) == IF S = {} THEN 0 ELSE LET x == CHOOSE x \in S : TRUE IN prio[x] + SumPrio(S \ {x})
\* documented compound priority: own priority + priorities of the set of distinct descendants
CpOf == [n \in Node |-> prio[n] + SumPrio(DescOf(n))]
C == [n |-> N, mc |-> mc, deps |-> deps, sel |-> Sel, off |-> off, cp |-> cp, seq |-> seq, res |-> res]

\* digraph.py:122-139
Roots(g) == {n \in g : deps[n] \cap g = {}}
NewRoots(g, n) == {m \in g : n \in deps[m] /\ deps[m] \cap g = {n}}
Running == Cardinality(concRun) + Cardinality(asyncRun)
Fin(n) == st[n] \in {"done", "failed"}

Init ==
  /\ deps \in {d \in [Node -> SUBSET Node] : \A n \in Node : \A m \in d[n] : m < n}
  /\ mc \in MCS
  /\ prio \in [Node -> PRS]
  /\ cp = CpOf
  /\ seq \in [Node -> SEQS]
  /\ res \in [Node -> RES]
  /\ bad \in {s \in SUBSET Node : Cardinality(s) <= FAILS}
  /\ pre \in {s \in SUBSET Node : Cardinality(s) <= PREMAX /\ \A n \in s : deps[n] \subseteq s}
  /\ off \in {s \in SUBSET (Node \ pre) : Cardinality(s) <= INACT}
  /\ pc = "head" /\ graph = Node \ pre                   \* 258: prune what is already in results
  /\ runnable = Roots(Node \ pre)                        \* 274
  /\ concRun = {} /\ asyncRun = {} /\ cur = 0
  /\ st = [n \in Node |-> "idle"] /\ obsFail = FALSE /\ outcome = "none" /\ both = FALSE

UnchEnv == UNCHANGED <<cfgv, st>>

\* 280, 291
LoopHead ==
  /\ pc = "head"
  /\ IF graph = {} THEN pc' = "exit" /\ UNCHANGED both
     ELSE IF Running = mc \/ runnable = {}
          THEN pc' = "blkA" /\ both' = (concRun # {} /\ asyncRun # {})
          ELSE pc' = "pick" /\ UNCHANGED both
  /\ UNCHANGED <<cfgv, graph, runnable, concRun, asyncRun, cur, st, obsFail, outcome>>

\* 137-141 / 175-179: inspect the finished futures D; raise on the first failure, else prune
Observe(D, nextpc) ==
  IF \E n \in D : st[n] = "failed"
  THEN /\ pc' = "raised" /\ outcome' = "raise" /\ obsFail' = TRUE
       /\ UNCHANGED <<graph, runnable>>
  ELSE /\ pc' = nextpc /\ UNCHANGED <<outcome, obsFail>>
       /\ graph' = graph \ D
       /\ runnable' = runnable \cup
            {m \in graph \ D : deps[m] \cap (graph \ D) = {} /\ deps[m] \cap D # {}}

WaitAsync(here, nextpc, all) ==
  /\ pc = here
  /\ IF asyncRun = {}                                     \* 167-168
     THEN pc' = nextpc /\ UNCHANGED <<graph, runnable, asyncRun, outcome, obsFail>>
     ELSE LET D == {n \in asyncRun : Fin(n)} IN           \* 169
          /\ IF all THEN D = asyncRun ELSE D # {}
          /\ asyncRun' = asyncRun \ D
          /\ Observe(D, nextpc)
  /\ UNCHANGED <<cfgv, concRun, cur, st, both>>

WaitConc(here, nextpc, all) ==
  /\ pc = here
  /\ IF concRun = {}                                      \* 129-130
     THEN pc' = nextpc /\ UNCHANGED <<graph, runnable, concRun, outcome, obsFail>>
     ELSE LET D == {n \in concRun : Fin(n)} IN            \* 131
          /\ IF all THEN D = concRun ELSE D # {}
          /\ concRun' = concRun \ D
          /\ Observe(D, nextpc)
  /\ UNCHANGED <<cfgv, asyncRun, cur, st, both>>

\* 313
AfterBlock ==
  /\ pc = "blkDone"
  /\ pc' = IF runnable = {} THEN "head" ELSE "pick"
  /\ UNCHANGED <<cfgv, graph, runnable, concRun, asyncRun, cur, st, obsFail, outcome, both>>

BestRunnable == {n \in runnable : \A m \in runnable : cp[m] <= cp[n]}

\* 318-350
Pick ==
  /\ pc = "pick"
  /\ \E n \in BestRunnable :
       /\ cur' = n
       /\ IF seq[n] /\ Running # 0
          THEN /\ pc' = "drnA" /\ both' = (concRun # {} /\ asyncRun # {})   \* 328-338
               /\ UNCHANGED <<runnable, graph, st>>
          ELSE /\ UNCHANGED both
               /\ IF n \in off                                              \* 344-350
                  THEN /\ st' = [st EXCEPT ![n] = "skipped"]
                       /\ graph' = graph \ {n}
                       /\ runnable' = (runnable \ {n}) \cup NewRoots(graph, n)
                       /\ pc' = "head"
                  ELSE /\ runnable' = runnable \ {n} /\ pc' = "disp"        \* 341
                       /\ UNCHANGED <<graph, st>>
  /\ UNCHANGED <<cfgv, concRun, asyncRun, obsFail, outcome>>

\* 353-371
Dispatch ==
  /\ pc = "disp"
  /\ CASE res[cur] = "thread" ->
            /\ concRun' = concRun \cup {cur} /\ st' = [st EXCEPT ![cur] = "queued"]
            /\ pc' = IF seq[cur] THEN "sqA" ELSE "head"
            /\ UNCHANGED <<asyncRun>>
       [] res[cur] = "async" ->
            /\ asyncRun' = asyncRun \cup {cur} /\ st' = [st EXCEPT ![cur] = "created"]
            /\ pc' = IF seq[cur] THEN "sqA" ELSE "head"
            /\ UNCHANGED <<concRun>>
       [] res[cur] = "main" ->
            /\ st' = [st EXCEPT ![cur] = "running"] /\ pc' = "inline"
            /\ UNCHANGED <<concRun, asyncRun>>
  /\ both' = IF pc' = "sqA" THEN (concRun' # {} /\ asyncRun' # {}) ELSE both
  /\ UNCHANGED <<cfgv, graph, runnable, cur, obsFail, outcome>>

\* 368-371
InlineEnd ==
  /\ pc = "inline"
  /\ IF cur \in bad
     THEN /\ st' = [st EXCEPT ![cur] = "failed"] /\ pc' = "raised"
          /\ outcome' = "raise" /\ obsFail' = TRUE
          /\ UNCHANGED <<graph, runnable, both>>
     ELSE /\ st' = [st EXCEPT ![cur] = "done"]
          /\ graph' = graph \ {cur}
          /\ runnable' = runnable \cup NewRoots(graph, cur)
          /\ pc' = IF seq[cur] THEN "sqA" ELSE "head"
          /\ both' = IF seq[cur] THEN (concRun # {} /\ asyncRun # {}) ELSE both
          /\ UNCHANGED <<outcome, obsFail>>
  /\ UNCHANGED <<cfgv, concRun, asyncRun, cur>>

\* 385-387
Exit ==
  /\ pc = "exit" /\ outcome = "none" /\ outcome' = "ok"
  /\ UNCHANGED <<cfgv, pc, graph, runnable, concRun, asyncRun, cur, st, obsFail, both>>

\* the event loop only runs other tasks while the scheduler coroutine is suspended in
\* `await asyncio.wait(...)` on a non-empty set
Yielded == pc \in {"blkA", "drnA", "sqA"} /\ asyncRun # {}

\* ---- environment: asyncio tasks, pool workers, node functions
UnchSched == UNCHANGED <<cfgv, pc, graph, runnable, concRun, asyncRun, cur, obsFail, outcome, both>>
TaskStart(n) == st[n] = "created" /\ Yielded /\ st' = [st EXCEPT ![n] = "queued"] /\ UnchSched
PoolStart(n) == st[n] = "queued" /\ st' = [st EXCEPT ![n] = "running"] /\ UnchSched
Finish(n) == /\ st[n] = "running" /\ res[n] # "main"
             /\ st' = [st EXCEPT ![n] = IF n \in bad THEN "failed" ELSE "done"]
             /\ UnchSched

SchedNext ==
  \/ LoopHead \/ AfterBlock \/ Pick \/ Dispatch \/ InlineEnd \/ Exit
  \/ WaitAsync("blkA", "blkC", FALSE) \/ WaitConc("blkC", "blkDone", FALSE)
  \/ WaitAsync("drnA", "drnC", FALSE) \/ WaitConc("drnC", "head", FALSE)
  \/ WaitAsync("sqA", "sqC", TRUE) \/ WaitConc("sqC", "head", TRUE)
EnvNext == \E n \in Node : TaskStart(n) \/ PoolStart(n) \/ Finish(n)
Next == SchedNext \/ EnvNext

Spec == Init /\ [][Next]_vars /\ WF_vars(Next)

(***************************************************************************)
(* Refinement mapping to the observable state of SchedObs.                 *)
(***************************************************************************)
PhOf(s) == CASE s = "idle" -> "idle" [] s \in {"created", "queued"} -> "disp"
             [] s = "running" -> "run" [] s = "done" -> "ok" [] s = "failed" -> "fail"
             [] s = "skipped" -> "skip"
ph == [n \in Node |-> PhOf(st[n])]
deliv == Sel \ graph       \* a node leaves the graph exactly when its completion is delivered

TypeOK ==
  /\ pc \in {"head", "blkA", "blkC", "blkDone", "pick", "drnA", "drnC", "disp", "inline",
             "sqA", "sqC", "exit", "raised"}
  /\ graph \subseteq Sel /\ runnable \subseteq graph
  /\ concRun \subseteq graph /\ asyncRun \subseteq graph /\ concRun \cap asyncRun = {}

(* C02 *)
P02 == \A n \in Sel : ph[n] \in {"disp", "run", "ok", "fail"} => OrderOK(C, ph, n)
(* C03 *)
P03 == /\ \A n \in pre : st[n] = "idle"
       /\ \A n \in off : st[n] \in {"idle", "skipped"}
       /\ outcome = "ok" => Complete(C, ph)
P03once == [][\A n \in Node : st[n] # "idle" => st'[n] # "idle"]_vars
(* C04 *)
P04 == BoundOK(C, ph) /\ MainAlone(C, ph)
(* C05 *)
P05 == NoOverlap(C, ph) /\ SeqAlone(C, ph)
(* C06 *)
P06 == /\ pc = "disp" => MaxPriority(C, ph, deliv, cur) /\ cur \in ReadyD(C, ph, deliv)
       /\ pc = "pick" => runnable = ReadyD(C, ph, deliv)
(* C08; `both` marks the blocking sections that fall under the known finding *)
AtWait == \/ pc \in {"blkA", "drnA", "sqA"} /\ asyncRun # {}
          \/ pc \in {"blkC", "drnC", "sqC"} /\ concRun # {}
Awaited == IF pc \in {"blkA", "drnA", "sqA"} THEN asyncRun ELSE concRun
StillBlocked == AtWait /\ IF pc \in {"sqA", "sqC"} THEN \E n \in Awaited : ~Fin(n)
                                                   ELSE \A n \in Awaited : ~Fin(n)
P08 == (AtWait /\ ~both) => JustifiedD(C, ph, deliv)
P08still == (StillBlocked /\ ~both) => JustifiedL(C, ph)
P08known == AtWait => JustifiedD(C, ph, deliv)        \* violated: the known finding
(* C09 *)
NoSpin == ~(pc = "head" /\ graph # {} /\ runnable = {} /\ concRun = {} /\ asyncRun = {})
NoStuck == (pc \notin {"exit", "raised"}) => ENABLED Next
P09 == <>(pc \in {"exit", "raised"})
(* C17: the kind of future a node is awaited through follows its resource *)
P17 == (\A n \in concRun : res[n] = "thread") /\ (\A n \in asyncRun : res[n] = "async")
(* C14 *)
P14 == /\ pc = "disp" => NoFailedAncestor(C, ph, cur) /\ ~obsFail
       /\ outcome = "raise" => \E n \in Sel : st[n] = "failed"
       /\ (pc = "exit" /\ outcome = "ok") => \A n \in Node : st[n] # "failed"
P14after == [][obsFail => \A n \in Node : st[n] = "idle" => st'[n] = "idle"]_vars
=============================================================================
