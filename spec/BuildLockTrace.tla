--------------------------- MODULE BuildLockTrace ---------------------------
(***************************************************************************)
(* Code -> specification for the build half of C16: scenarios run with     *)
(* real threads (a builder pausing inside its describing function while    *)
(* other threads call a DAG, call a decorated function or start another    *)
(* build) are replayed against BuildLock.tla with IMPL = "owner".          *)
(* Input (IOEnv.TRACE_FILE): {"traces": [{tid, k: [K per builder], ev}]}   *)
(* event = [e, t, i, out, tbl]                                             *)
(***************************************************************************)
EXTENDS Naturals, FiniteSets, Sequences, TLC, Json, IOUtils

Data == JsonDeserialize(IOEnv.TRACE_FILE)
Traces == Data.traces
NT == Len(Traces)
RangeOf(s) == {s[j] : j \in 1..Len(s)}

VARIABLES tid, pos, lock, table, step, viol, cnt
vars == <<tid, pos, lock, table, step, viol, cnt>>
Init == /\ tid \in 1..NT /\ pos = 1 /\ lock = 0 /\ table = {} /\ viol = {}
        /\ step = [b \in 1..4 |-> 0] /\ cnt = [paused |-> 0, calls |-> 0]
Clauses(S) == {p[2] : p \in {q \in S : q[1]}}
Mark(names) == viol \cup {[i |-> pos, c |-> nm] : nm \in names}

Step ==
  LET T == Traces[tid]
      e == T.ev[pos]
      b == e.t
  IN /\ pos <= Len(T.ev) /\ pos' = pos + 1 /\ tid' = tid
     /\ CASE e.e = "acquire" ->
               /\ viol' = Mark(Clauses({<<lock # 0, "C16.builds-overlap">>}))
               /\ lock' = b /\ table' = {} /\ step' = [step EXCEPT ![b] = 0] /\ UNCHANGED cnt
          [] e.e = "describe" ->
               /\ viol' = Mark(Clauses({<<lock # b, "C16.builds-overlap">>, <<e.i # step[b] + 1, "WF.describe-order">>}))
               /\ table' = table \cup {<<b, e.i>>} /\ step' = [step EXCEPT ![b] = e.i]
               /\ UNCHANGED <<lock, cnt>>
          [] e.e = "construct" ->
               \* the DAG that comes out is the DAG built alone: exactly its own call sites
               /\ viol' = Mark(Clauses({
                     <<{<<x[1], x[2]>> : x \in RangeOf(e.tbl)} # {<<b, i>> : i \in 1..T.k[b]}, "C16.build-polluted">>,
                     <<e.out # "same", "C16.build-differs">>}))
               /\ lock' = 0 /\ table' = {} /\ UNCHANGED <<step, cnt>>
          [] e.e = "calldag" ->
               /\ viol' = Mark(Clauses({<<e.out # "ran", "C16.dag-call">>}))
               /\ cnt' = [cnt EXCEPT !.calls = @ + 1, !.paused = @ + (IF lock # 0 THEN 1 ELSE 0)]
               /\ UNCHANGED <<lock, table, step>>
          [] e.e = "callxn" ->
               /\ viol' = Mark(Clauses({<<e.out # "raised", "C16.xn-call">>}))
               /\ cnt' = [cnt EXCEPT !.calls = @ + 1, !.paused = @ + (IF lock # 0 THEN 1 ELSE 0)]
               /\ UNCHANGED <<lock, table, step>>
          [] e.e = "failedbuild" ->        \* an earlier build of this thread raised: the lock is free again, nothing is left behind
               /\ viol' = Mark(Clauses({<<lock = b, "C16.lock-leaked">>}))
               /\ UNCHANGED <<lock, table, step, cnt>>
          [] OTHER -> /\ viol' = Mark({"WF.event"}) /\ UNCHANGED <<lock, table, step, cnt>>
Spec == Init /\ [][Step]_vars
Done == pos = Len(Traces[tid].ev) + 1
Verdict == Done => PrintT("VERDICT " \o ToJson([tid |-> Traces[tid].tid, viol |-> viol, cnt |-> cnt]))
=============================================================================
