CONSTANTS
 N = 3
 MCS = {1, 2}
 RES = {"thread", "async", "main"}
 PRS = {0}
 SEQS = {TRUE, FALSE}
 FAILS = 1
 INACT = 1
 PREMAX = 0
SPECIFICATION Spec
PROPERTY P09
CHECK_DEADLOCK FALSE
