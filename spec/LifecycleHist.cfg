CONSTANTS
 MaxOps = 7
 NI = 2
 NX = 2
 NF = 1
SPECIFICATION SpecH
INVARIANT Export
INVARIANT SetupOnce
INVARIANT NoRecompute
CHECK_DEADLOCK FALSE
