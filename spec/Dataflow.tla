------------------------------ MODULE Dataflow ------------------------------
(***************************************************************************)
(* Engine E2: values, references and the REFERENCE SEMANTICS of a          *)
(* describing function (DESIGN I4): the body is evaluated sequentially,    *)
(* every decorated function is its plain callable, a deactivated call      *)
(* yields None, a nested DAG is its body written in place.                 *)
(*   tawazi/node/node.py (LazyExecNode.__call__, make_args/kwargs/active)  *)
(*   tawazi/node/uxn.py (key paths), tawazi/node/functions.py (returns)    *)
(*   tawazi/_dag/dag.py:693-799 (nested DAG), helpers.py:21-33 (flags)     *)
(*                                                                         *)
(* VALUES are uniform records [k, i, s, x, ks]:                            *)
(*   k = "i" int (i), "b" bool (i in 0..1), "n" None, "s" string (x),      *)
(*       "t" tuple (s), "l" list (s), "d" dict (keys ks, values s), "err"  *)
(* A PROGRAM P is a record                                                 *)
(*   params : sequence of [has, v]          (default value if has)         *)
(*   sites  : sequence of [kind, fn, args, kw, active, unpack, sub, setup] *)
(*            (setup: computed once per DAG object; also inside nested DAGs)*)
(*            kind "call" (fn names a function), "sub" (nested DAG sub)    *)
(*   ret    : [shape, refs, keys]  shape single / tuple / list / dict /    *)
(*            none                                                         *)
(*   subs   : sequence of programs (the DAGs it may call)                  *)
(* A REFERENCE is [c, v, n, path]: c = "const" (v), "param" (n, then a key *)
(* path), "site" (n, then the key path: each key [k |-> "i"/"s"/"li"/"ti",  *)
(* i, x, q]: an int, a string, a list of ints, a tuple of ints),           *)
(* "none".                                                                 *)
(***************************************************************************)
EXTENDS Naturals, Integers, Sequences, FiniteSets, TLC

V(k, i, s, x, ks) == [k |-> k, i |-> i, s |-> s, x |-> x, ks |-> ks]
VInt(n) == V("i", n, <<>>, "", <<>>)
VBool(b) == V("b", IF b THEN 1 ELSE 0, <<>>, "", <<>>)
VNone == V("n", 0, <<>>, "", <<>>)
VStr(x) == V("s", 0, <<>>, x, <<>>)
VTup(q) == V("t", 0, q, "", <<>>)
VList(q) == V("l", 0, q, "", <<>>)
VDict(ks, q) == V("d", 0, q, "", ks)
\* a container with the indexing convention of numpy / pandas: its rows are lists; g[i] is a row, g[[i, j]] (a LIST key)
\* the list of the rows i and j, g[i, j] (a TUPLE key) one cell
VGrid(rows) == V("g", 0, rows, "", <<>>)
VErr == V("err", 0, <<>>, "", <<>>)
IsErr(v) == v.k = "err"

\* Python truthiness on this domain
Truthy(v) == CASE v.k \in {"i", "b"} -> v.i # 0
               [] v.k = "n" -> FALSE
               [] v.k = "s" -> v.x # ""
               [] v.k \in {"t", "l", "d"} -> Len(v.s) > 0
               [] v.k = "g" -> TRUE
               [] OTHER -> FALSE

\* obj[key]...: the indexing the user wrote
KeyPos(ks, x) == IF \E j \in 1..Len(ks) : ks[j] = x THEN CHOOSE j \in 1..Len(ks) : ks[j] = x ELSE 0
RECURSIVE Index(_, _)
Index(v, path) ==
  IF Len(path) = 0 THEN v
  ELSE LET key == Head(path) IN
       IF key.k = "i" /\ v.k \in {"t", "l"} /\ key.i >= 0 /\ key.i < Len(v.s)
       THEN Index(v.s[key.i + 1], Tail(path))
       ELSE IF key.k = "s" /\ v.k = "d" /\ KeyPos(v.ks, key.x) # 0
       THEN Index(v.s[KeyPos(v.ks, key.x)], Tail(path))
       \* the keys of a grid: an int (a row), a list of ints (several rows), a tuple of two ints (a cell).  The key is handed
       \* to the container as the user wrote it - a list stays a list
       ELSE IF key.k = "i" /\ v.k = "g" /\ key.i >= 0 /\ key.i < Len(v.s)
       THEN Index(v.s[key.i + 1], Tail(path))
       ELSE IF key.k = "li" /\ v.k = "g" /\ \A j \in 1..Len(key.q) : key.q[j] >= 0 /\ key.q[j] < Len(v.s)
       THEN Index(VList([j \in 1..Len(key.q) |-> v.s[key.q[j] + 1]]), Tail(path))
       ELSE IF key.k = "ti" /\ v.k = "g" /\ Len(key.q) = 2 /\ key.q[1] >= 0 /\ key.q[1] < Len(v.s) /\ key.q[2] >= 0
               /\ key.q[2] < Len(v.s[key.q[1] + 1].s)
       THEN Index(v.s[key.q[1] + 1].s[key.q[2] + 1], Tail(path))
       ELSE VErr

IntLike(v) == v.k = "i"
\* Python's d1 | d2: the keys of d1 in their order, then the new keys of d2; where both have a key, d2's value
DictMerge(p, q) ==
  LET extra == SelectSeq(q.ks, LAMBDA x : KeyPos(p.ks, x) = 0)
      ks == p.ks \o extra
  IN VDict(ks, [j \in 1..Len(ks) |-> IF KeyPos(q.ks, ks[j]) # 0 THEN q.s[KeyPos(q.ks, ks[j])] ELSE p.s[KeyPos(p.ks, ks[j])]])
\* the plain callables
Apply(fn, a) ==
  CASE fn = "mix"    -> VTup(a)
    [] fn = "pair"   -> VTup(<<a[2], VTup(<<a[1], a[2]>>)>>)
    [] fn = "mkdict" -> VDict(<<"a", "b">>, <<a[2], VTup(<<a[1], a[2]>>)>>)
    [] fn = "mklist" -> VList(<<a[2], a[3], a[1]>>)
    [] fn = "mkgrid" -> VGrid(<<VList(<<a[1], a[2]>>), VList(<<a[2], a[3]>>), VList(<<a[3], a[1]>>)>>)
    [] fn = "ident"  -> a[1]
    [] fn = "label"  -> IF IntLike(a[1]) THEN VStr("n" \o ToString(a[1].i)) ELSE VErr
    \* + on two ints, or the concatenation of two strings / tuples / lists (which does not commute)
    [] fn = "add"    -> IF IntLike(a[1]) /\ IntLike(a[2]) THEN VInt(a[1].i + a[2].i)
                        ELSE IF a[1].k = a[2].k /\ a[1].k \in {"t", "l"} THEN V(a[1].k, 0, a[1].s \o a[2].s, "", <<>>)
                        ELSE IF a[1].k = "s" /\ a[2].k = "s" THEN VStr(a[1].x \o a[2].x)
                        ELSE VErr
    [] fn = "bor"    -> IF a[1].k = "d" /\ a[2].k = "d" THEN DictMerge(a[1], a[2]) ELSE VErr
    [] fn = "sub"    -> IF IntLike(a[1]) /\ IntLike(a[2]) THEN VInt(a[1].i - a[2].i) ELSE VErr
    [] fn = "mul"    -> IF IntLike(a[1]) /\ IntLike(a[2]) THEN VInt(a[1].i * a[2].i) ELSE VErr
    [] fn = "lt"     -> IF IntLike(a[1]) /\ IntLike(a[2]) THEN VBool(a[1].i < a[2].i) ELSE VErr
    [] fn = "ge"     -> IF IntLike(a[1]) /\ IntLike(a[2]) THEN VBool(a[1].i >= a[2].i) ELSE VErr
    [] fn = "eq"     -> VBool(a[1] = a[2])
    [] fn = "ne"     -> VBool(a[1] # a[2])
    [] fn = "neg"    -> IF IntLike(a[1]) THEN VInt(0 - a[1].i) ELSE VErr
    [] fn = "abs"    -> IF IntLike(a[1]) THEN VInt(IF a[1].i < 0 THEN 0 - a[1].i ELSE a[1].i) ELSE VErr
    \* Python's // and % round towards minus infinity; for a positive divisor that is TLA+'s \div and %
    [] fn = "floordiv" -> IF IntLike(a[1]) /\ IntLike(a[2]) /\ a[2].i > 0 THEN VInt(a[1].i \div a[2].i) ELSE VErr
    [] fn = "mod"    -> IF IntLike(a[1]) /\ IntLike(a[2]) /\ a[2].i > 0 THEN VInt(a[1].i % a[2].i) ELSE VErr
    [] fn = "and"    -> IF Truthy(a[1]) THEN a[2] ELSE a[1]
    [] fn = "or"     -> IF Truthy(a[1]) THEN a[1] ELSE a[2]
    [] fn = "not"    -> VBool(~Truthy(a[1]))
    [] OTHER -> VErr

Resolve(r, env, args) ==
  CASE r.c = "const" -> r.v
    [] r.c = "param" -> IF r.n <= Len(args) THEN Index(args[r.n], r.path) ELSE VErr       \* p, p[k], p[k][m]
    [] r.c = "site"  -> IF r.n <= Len(env) THEN Index(env[r.n], r.path) ELSE VErr
    [] OTHER -> VNone

AnyErr(q) == \E j \in 1..Len(q) : IsErr(q[j])

(***************************************************************************)
(* EvalProg(P, args, pre, off, mode) = [val, exec, err]:                   *)
(*   val   value the body returns                                          *)
(*   exec  set of executed call sites, each a path (pre \o <<j>>)          *)
(*   err   the plain body raises (outside the equivalence, I4)             *)
(* off = the body belongs to a deactivated nested DAG: none of its non-    *)
(* setup call sites executes, each yields None, and ALL its outputs are    *)
(* None (property C10) - also a parameter or a setup result it hands       *)
(* straight back.  Setup call sites belong to the DAG object, not to the   *)
(* call: they execute (once) whether or not the nested DAG is active.      *)
(* mode = "letter" is the property.  Two variant readings exist only so    *)
(* that DfCheck can tell two recorded findings from any other wrong        *)
(* outcome: "keep" - a deactivated nested DAG still shows a setup result   *)
(* it returns directly; "index" - an output of a deactivated nested DAG    *)
(* that is an indexed / unpacked part of an inner result is obtained by    *)
(* indexing the None the inner node yielded (which raises).                *)
(***************************************************************************)
RECURSIVE EvalProg(_, _, _, _, _)
RECURSIVE EvalSites(_, _, _, _, _, _, _, _, _)

EvalSites(P, args, j, env, exec, err, pre, off, mode) ==
  IF j > Len(P.sites) THEN [env |-> env, exec |-> exec, err |-> err]
  ELSE
  LET s == P.sites[j]
      pos == [x \in 1..Len(s.args) |-> Resolve(s.args[x], env, args)]
      kws == [x \in 1..Len(s.kw) |-> Resolve(s.kw[x].ref, env, args)]
      flag == Resolve(s.active, env, args)
      act == IF s.setup THEN TRUE ELSE ~off /\ (s.active.c = "none" \/ Truthy(flag))
      inputErr == AnyErr(pos) \/ AnyErr(kws) \/ (s.active.c # "none" /\ IsErr(flag))
  IN
  IF s.kind = "sub"
  THEN LET Q == P.subs[s.sub]
           bound == [p \in 1..Len(Q.params) |->
                       IF p <= Len(pos) THEN pos[p] ELSE IF Q.params[p].has THEN Q.params[p].v ELSE VErr]
           r == EvalProg(Q, bound, pre \o <<j>>, off \/ ~act, mode)
           bad == inputErr \/ Len(pos) > Len(Q.params) \/ AnyErr(bound) \/ r.err
       IN EvalSites(P, args, j + 1, Append(env, IF bad THEN VErr ELSE r.val), exec \cup r.exec, err \/ bad, pre, off, mode)
  ELSE LET raw == IF act THEN Apply(s.fn, pos \o kws) ELSE VNone
           shapeBad == act /\ s.unpack > 0 /\ ~(raw.k \in {"t", "l"} /\ Len(raw.s) = s.unpack)
           bad == inputErr \/ IsErr(raw) \/ shapeBad
       IN EvalSites(P, args, j + 1, Append(env, IF bad THEN VErr ELSE raw),
                    IF act THEN exec \cup {pre \o <<j>>} ELSE exec, err \/ bad, pre, off, mode)

EvalProg(P, args, pre, off, mode) ==
  LET r == EvalSites(P, args, 1, <<>>, {}, FALSE, pre, off, mode)
      Out(ref) == IF ~off THEN Resolve(ref, r.env, args)
                  \* the outputs of a nested DAG called in here were shaped by its own (deactivated) evaluation
                  ELSE IF ref.c = "site" /\ ref.n <= Len(P.sites) /\ P.sites[ref.n].kind = "sub" THEN Resolve(ref, r.env, args)
                  ELSE IF mode = "keep" /\ ref.c = "site" /\ ref.n <= Len(P.sites) /\ P.sites[ref.n].setup THEN Resolve(ref, r.env, args)
                  ELSE IF mode = "index" /\ ref.c = "site" /\ ref.n <= Len(P.sites) /\ ~P.sites[ref.n].setup THEN Resolve(ref, r.env, args)
                  ELSE VNone
      outs == [x \in 1..Len(P.ret.refs) |-> Out(P.ret.refs[x])]
      val == CASE P.ret.shape = "single" -> outs[1]
               [] P.ret.shape = "tuple" -> VTup(outs)
               [] P.ret.shape = "list" -> VList(outs)
               [] P.ret.shape = "dict" -> VDict(P.ret.keys, outs)
               [] OTHER -> VNone
  IN [val |-> val, exec |-> r.exec, err |-> r.err \/ AnyErr(outs)]

\* a call of the outermost DAG: omitted arguments take their defaults
BindTop(P, given) == [p \in 1..Len(P.params) |->
                        IF p <= Len(given) THEN given[p] ELSE IF P.params[p].has THEN P.params[p].v ELSE VErr]
Eval(P, given) ==
  LET args == BindTop(P, given) IN
  IF AnyErr(args) \/ Len(given) > Len(P.params)
  THEN [val |-> VErr, valK |-> VErr, execK |-> {}, errK |-> TRUE, errI |-> TRUE, exec |-> {}, err |-> TRUE, argerr |-> TRUE]
  ELSE LET r == EvalProg(P, args, <<>>, FALSE, "letter")
           rk == EvalProg(P, args, <<>>, FALSE, "keep")
       IN [val |-> r.val, valK |-> rk.val, execK |-> rk.exec, errK |-> rk.err, errI |-> EvalProg(P, args, <<>>, FALSE, "index").err,
           exec |-> r.exec, err |-> r.err, argerr |-> FALSE]
=============================================================================
