------------------------------- MODULE CpCheck -------------------------------
(***************************************************************************)
(* Code -> specification for property C07 (and the table half of C06):     *)
(* compound-priority tables and mc=1 execution orders observed on the real *)
(* library, under several PYTHONHASHSEEDs, are compared with               *)
(* CompoundPriority.tla.  Input (IOEnv.CASE_FILE): {"rows": [row, ...]}    *)
(* row = {n, deps, prio, prio2, cp_build, cp_reconf, cp_reconf2, order, order2,        *)
(*        subs: [[gmask, cp...], ...], hs}                                 *)
(***************************************************************************)
EXTENDS CompoundPriority, TLC, Json, IOUtils

Data == JsonDeserialize(IOEnv.CASE_FILE)
Rows == Data.rows
NR == Len(Rows)
RangeOf(s) == {s[j] : j \in 1..Len(s)}
Bits(n, m) == {k \in 1..n : (m \div (2 ^ (k - 1))) % 2 = 1}

VARIABLE r
Init == r \in 1..NR
Next == UNCHANGED r
Spec == Init /\ [][Next]_r

Clauses(S) == {p[2] : p \in {q \in S : q[1]}}
Count(reg, cond) == IF cond THEN TLCSet(reg, TLCGet(reg) + 1) ELSE TRUE

Bad(W) ==
  LET n == W.n
      deps == [k \in 1..n |-> RangeOf(W.deps[k])]
      doc == Doc(n, deps, W.prio)
      doc2 == Doc(n, deps, W.prio2)
      all == 1..n
  IN Clauses({
       <<W.cp_build # doc, "C07.table">>,
       <<W.cp_reconf # doc2, "C07.reconf">>,
       <<W.cp_reconf2 # doc2, "C07.reconf-again">>,
       <<\E s \in RangeOf(W.subs) : \E k \in Bits(n, s[1]) : s[k + 1] # doc[k], "C07.subgraph">>,
       <<~ValidOrder(n, deps, doc, all, W.order), "C07.order">>,
       <<~ValidOrder(n, deps, doc2, all, W.order2), "C07.order-reconf">>,
       \* C06 at max_concurrency = 1: every node that is started has the greatest documented compound priority among the
       \* ready ones - on DAGs as described, as obtained through compose(), and after a reload
       <<~ValidOrder(n, deps, doc, all, W.order), "C06.order">>,
       <<~ValidOrder(n, deps, doc2, all, W.order2), "C06.order-reconf">>,
       <<~LemmaPathIndependent(n, deps, W.prio), "LEMMA.path">>,
       <<~LemmaMonotone(n, deps, W.prio), "LEMMA.monotone">>})

Check ==
  LET W == Rows[r]
      b == Bad(W)
      deps == [k \in 1..W.n |-> RangeOf(W.deps[k])]
  IN /\ Count(1, TRUE)
     /\ Count(2, NoTies(W.n, deps, Doc(W.n, deps, W.prio), 1..W.n))            \* unique order
     /\ Count(3, \E k \in 1..W.n : \E x, y \in deps[k] : x # y /\ AncOf(deps, x) \cap AncOf(deps, y) # {})  \* diamond
     /\ Count(4, Len(W.subs) > 0)
     /\ (b = {} \/ PrintT("MISMATCH " \o ToJson([r |-> r, c |-> b])))

ASSUME \A reg \in 1..4 : TLCSet(reg, 0)
Counts == PrintT("COUNTS " \o ToJson([rows |-> TLCGet(1), unique |-> TLCGet(2), diamonds |-> TLCGet(3), withsubs |-> TLCGet(4)]))
=============================================================================
