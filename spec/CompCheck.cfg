SPECIFICATION Spec
INVARIANT Check
POSTCONDITION Counts
CHECK_DEADLOCK FALSE
