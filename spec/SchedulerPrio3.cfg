CONSTANTS
 N = 3
 MCS = {1, 2}
 RES = {"thread", "async", "main"}
 PRS = {0, 1, 2}
 SEQS = {TRUE, FALSE}
 FAILS = 0
 INACT = 1
 PREMAX = 0
SPECIFICATION Spec
INVARIANT P06
INVARIANT P08
INVARIANT P08still
INVARIANT P05
CHECK_DEADLOCK FALSE
