CONSTANTS
 Builders = {1, 2}
 DagCallers = {3}
 XnCallers = {4}
 K = 2
 IMPL = "locked"
SPECIFICATION Spec
INVARIANT CallersAlone
INVARIANT BuildPure
INVARIANT OneDescriber
PROPERTY AllFinish
CHECK_DEADLOCK FALSE
