------------------------------ MODULE BuildLock ------------------------------
(***************************************************************************)
(* Engine E5 (property C16): building DAGs and calling DAGs / decorated    *)
(* functions from several threads.                                         *)
(*   tawazi/node/node.py     : module-level exec_nodes / results tables,   *)
(*                             exec_nodes_lock, LazyExecNode.__call__      *)
(*   tawazi/_dag/constructor.py : threadsafe_make_dag, wrap_make_dag       *)
(*   tawazi/_dag/dag.py      : DAG.__call__ (description_context)          *)
(*                                                                         *)
(* Processes: builders (each describes K call sites, then constructs),     *)
(* dag-callers (call an already built DAG), xn-callers (call a decorated   *)
(* function outside any DAG).  Every call path asks "am I inside a         *)
(* description?".  IMPL says how the question is answered:                 *)
(*   "owner"  the build lock is held BY THE ASKING THREAD (what the         *)
(*            property needs)                                              *)
(*   "locked" the build lock is held by anybody (the pinned tree's test)   *)
(* With "locked" TLC finds the interference of property C16 (the finding   *)
(* F7 of DESIGN section 8); with "owner" the invariants hold.              *)
(***************************************************************************)
EXTENDS Naturals, FiniteSets, Sequences, TLC
CONSTANTS Builders, DagCallers, XnCallers, K, IMPL
Threads == Builders \cup DagCallers \cup XnCallers

VARIABLES lock,      \* 0 (free) or the builder holding the build lock
          table,     \* module-level node table: set of <<thread, step>> entries
          pc,        \* per thread
          step,      \* per builder: describing steps done
          built,     \* per builder: NotBuilt or the node table its DAG was constructed from
          outcome,   \* per caller: "none", "ran", "recorded", "raised"
          failed     \* per builder: a build of this thread has failed already (each builder fails at most once)
vars == <<lock, table, pc, step, built, outcome, failed>>

NotBuilt == {<<0, 0>>}     \* sentinel: no thread is numbered 0
Describing(t) == IF IMPL = "owner" THEN lock = t ELSE lock # 0

Init ==
  /\ lock = 0 /\ table = {}
  /\ pc = [t \in Threads |-> "start"]
  /\ step = [b \in Builders |-> 0]
  /\ built = [b \in Builders |-> NotBuilt]
  /\ outcome = [t \in DagCallers \cup XnCallers |-> "none"]
  /\ failed = [b \in Builders |-> FALSE]

\* constructor.py:116-124 / 92-100: take the lock, reset the tables
Acquire(b) == /\ pc[b] = "start" /\ lock = 0
              /\ lock' = b /\ table' = {} /\ pc' = [pc EXCEPT ![b] = "describe"]
              /\ UNCHANGED <<step, built, outcome, failed>>
\* node.py:364-415: one recorded call site (the function pauses between sites)
Describe(b) == /\ pc[b] = "describe" /\ step[b] < K
               /\ Describing(b)
               /\ table' = table \cup {<<b, step[b] + 1>>}
               /\ step' = [step EXCEPT ![b] = @ + 1]
               /\ UNCHANGED <<lock, pc, built, outcome, failed>>
\* constructor.py:70-88: construct from the tables, then reset and release (101-109)
Construct(b) == /\ pc[b] = "describe" /\ step[b] = K
                /\ built' = [built EXCEPT ![b] = table]
                /\ table' = {} /\ lock' = 0 /\ pc' = [pc EXCEPT ![b] = "done"]
                /\ UNCHANGED <<step, outcome, failed>>
\* the describing function raises: wrap_make_dag's finally resets the tables, the lock is released, and
\* the thread may try again (constructor.py:101-109); nothing of the failed description may survive
FailBuild(b) == /\ pc[b] = "describe" /\ step[b] < K /\ ~failed[b]
                /\ table' = {} /\ lock' = 0 /\ step' = [step EXCEPT ![b] = 0]
                /\ failed' = [failed EXCEPT ![b] = TRUE]
                /\ pc' = [pc EXCEPT ![b] = "start"]
                /\ UNCHANGED <<built, outcome>>
\* dag.py:685-803: a built DAG is called: spliced into the description, or executed
CallDag(c) == /\ pc[c] = "start"
              /\ IF Describing(c)
                 THEN table' = table \cup {<<c, 0>>} /\ outcome' = [outcome EXCEPT ![c] = "recorded"]
                 ELSE UNCHANGED table /\ outcome' = [outcome EXCEPT ![c] = "ran"]
              /\ pc' = [pc EXCEPT ![c] = "done"]
              /\ UNCHANGED <<lock, step, built, failed>>
\* node.py:381-389: a decorated function is called outside any DAG: recorded, or refused
CallXn(x) == /\ pc[x] = "start"
             /\ IF Describing(x)
                THEN table' = table \cup {<<x, 0>>} /\ outcome' = [outcome EXCEPT ![x] = "recorded"]
                ELSE UNCHANGED table /\ outcome' = [outcome EXCEPT ![x] = "raised"]
             /\ pc' = [pc EXCEPT ![x] = "done"]
             /\ UNCHANGED <<lock, step, built, failed>>

Next == \/ \E b \in Builders : Acquire(b) \/ Describe(b) \/ Construct(b) \/ FailBuild(b)
        \/ \E c \in DagCallers : CallDag(c)
        \/ \E x \in XnCallers : CallXn(x)
Spec == Init /\ [][Next]_vars /\ WF_vars(Next)

(* C16 *)
\* a caller does what it would do alone
CallersAlone == /\ \A c \in DagCallers : outcome[c] \in {"none", "ran"}
                /\ \A x \in XnCallers : outcome[x] \in {"none", "raised"}
\* a DAG built while others run is the DAG built alone
BuildPure == \A b \in Builders : built[b] # NotBuilt => built[b] = {<<b, i>> : i \in 1..K}
\* two descriptions never overlap
OneDescriber == Cardinality({b \in Builders : pc[b] = "describe"}) <= 1
AllFinish == <>(\A t \in Threads : pc[t] = "done")
=============================================================================
