--------------------------- MODULE BuildLockProof ---------------------------
(***************************************************************************)
(* Unbounded safety of the build lock (property C16, model level): for ANY *)
(* finite sets of builders / callers and any K, with IMPL = "owner", the   *)
(* invariants BuildPure, CallersAlone and OneDescriber of BuildLock.tla    *)
(* hold in every reachable state.  Proved with TLAPS from the inductive    *)
(* invariant IndInv (TLC only covers the small instances of the .cfg).     *)
(***************************************************************************)
EXTENDS BuildLock, TLAPS, FiniteSetTheorems

ASSUME Assumptions ==
  /\ IMPL = "owner"
  /\ K \in Nat
  /\ Builders \subseteq Nat \ {0} /\ DagCallers \subseteq Nat \ {0} /\ XnCallers \subseteq Nat \ {0}
  /\ Builders \cap DagCallers = {} /\ Builders \cap XnCallers = {} /\ DagCallers \cap XnCallers = {}
  /\ IsFiniteSet(Builders)

Callers == DagCallers \cup XnCallers
Own(b, n) == {<<b, i>> : i \in 1..n}

TypeOK ==
  /\ lock \in Builders \cup {0}
  /\ pc \in [Threads -> {"start", "describe", "done"}]
  /\ step \in [Builders -> 0..K]
  /\ failed \in [Builders -> BOOLEAN]
  /\ outcome \in [Callers -> {"none", "ran", "recorded", "raised"}]
  /\ table \in SUBSET (Nat \X Nat)
  /\ built \in [Builders -> SUBSET (Nat \X Nat)]

IndInv ==
  /\ TypeOK
  /\ \A b \in Builders : pc[b] = "describe" <=> lock = b
  /\ \A c \in Callers : pc[c] # "describe"
  /\ \A b \in Builders : pc[b] = "start" => step[b] = 0
  /\ lock = 0 => table = {}
  /\ \A b \in Builders : lock = b => table = Own(b, step[b])
  /\ \A b \in Builders : built[b] # NotBuilt => built[b] = Own(b, K)
  /\ CallersAlone

THEOREM InitInv == Init => IndInv
  BY Assumptions DEF Init, IndInv, TypeOK, CallersAlone, Threads, Callers, Own, NotBuilt

THEOREM Step == IndInv /\ [Next]_vars => IndInv'
<1> SUFFICES ASSUME IndInv, [Next]_vars PROVE IndInv'
  OBVIOUS
<1> USE Assumptions DEF IndInv, TypeOK, CallersAlone, Threads, Callers, Own, NotBuilt, Describing
<1>1. ASSUME NEW b \in Builders, Acquire(b) PROVE IndInv'
  BY <1>1 DEF Acquire
<1>2. ASSUME NEW b \in Builders, Describe(b) PROVE IndInv'
  <2>1. lock = b /\ table = Own(b, step[b]) /\ step[b] < K /\ step[b] \in 0..K
    BY <1>2 DEF Describe
  <2>2. table' = Own(b, step[b] + 1)
    BY <1>2, <2>1 DEF Describe
  <2> QED BY <1>2, <2>1, <2>2 DEF Describe
<1>3. ASSUME NEW b \in Builders, Construct(b) PROVE IndInv'
  <2>1. lock = b /\ table = Own(b, K) /\ step[b] = K
    BY <1>3 DEF Construct
  <2>2. built' = [built EXCEPT ![b] = Own(b, K)] /\ table' = {} /\ lock' = 0 /\ pc' = [pc EXCEPT ![b] = "done"]
        /\ step' = step /\ outcome' = outcome /\ failed' = failed
    BY <1>3, <2>1 DEF Construct
  <2> QED BY <2>1, <2>2
<1>4. ASSUME NEW b \in Builders, FailBuild(b) PROVE IndInv'
  BY <1>4 DEF FailBuild
<1>5. ASSUME NEW c \in DagCallers, CallDag(c) PROVE IndInv'
  BY <1>5 DEF CallDag
<1>6. ASSUME NEW x \in XnCallers, CallXn(x) PROVE IndInv'
  BY <1>6 DEF CallXn
<1>7. CASE UNCHANGED vars
  BY <1>7 DEF vars
<1> QED BY <1>1, <1>2, <1>3, <1>4, <1>5, <1>6, <1>7 DEF Next

THEOREM Safety == IndInv => BuildPure /\ CallersAlone
  BY Assumptions DEF IndInv, BuildPure, CallersAlone, Own

THEOREM Spec => [](BuildPure /\ CallersAlone)
  BY InitInv, Step, Safety, PTL DEF Spec
=============================================================================
