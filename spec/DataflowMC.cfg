SPECIFICATION Spec
INVARIANT Confluence
PROPERTY WriteOnce
CHECK_DEADLOCK FALSE
