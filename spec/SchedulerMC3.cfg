CONSTANTS
 N = 3
 MCS = {1, 2, 3}
 RES = {"thread", "async", "main"}
 PRS = {0}
 SEQS = {TRUE, FALSE}
 FAILS = 1
 INACT = 1
 PREMAX = 1
SPECIFICATION Spec
INVARIANT TypeOK
INVARIANT P02
INVARIANT P03
INVARIANT P04
INVARIANT P05
INVARIANT P06
INVARIANT P08
INVARIANT P08still
INVARIANT NoSpin
INVARIANT NoStuck
INVARIANT P14
PROPERTY P03once
PROPERTY P14after
CHECK_DEADLOCK FALSE
