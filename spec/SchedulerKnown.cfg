CONSTANTS
 N = 3
 MCS = {2}
 RES = {"thread", "async"}
 PRS = {0}
 SEQS = {FALSE}
 FAILS = 0
 INACT = 0
 PREMAX = 0
SPECIFICATION Spec
INVARIANT P08known
CHECK_DEADLOCK FALSE
