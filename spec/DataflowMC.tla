----------------------------- MODULE DataflowMC -----------------------------
(***************************************************************************)
(* Model level of engine E2: the write-once results map executed by ANY    *)
(* schedule that respects the dependency edges (arguments, keyword         *)
(* arguments, activation flag).  For every flat program of the batch and   *)
(* every order in which ready call sites can run, the value assembled from *)
(* the results map equals the sequential reference semantics Eval          *)
(* (Confluence): the returned value does not depend on the schedule.       *)
(* Its premises on the real code - no node before its dependencies, every  *)
(* node once - are properties C02 / C03 (engine E1).                       *)
(***************************************************************************)
EXTENDS Dataflow, TLC, Json, IOUtils

Data == JsonDeserialize(IOEnv.CASE_FILE)
Cases == Data.cases            \* [prog, given], flat programs (no nested DAG) that do not raise
NC == Len(Cases)

VARIABLES pid, done, env
vars == <<pid, done, env>>
P == Cases[pid].prog
A == BindTop(P, Cases[pid].given)

RefsOf(s) == {s.args[x] : x \in 1..Len(s.args)} \cup {s.kw[x].ref : x \in 1..Len(s.kw)} \cup {s.active}
SiteDeps(s) == {r.n : r \in {q \in RefsOf(s) : q.c = "site"}}

Init == pid \in {c \in 1..NC : ~Eval(Cases[c].prog, Cases[c].given).err} /\ done = {} /\ env = [j \in 1..Len(Cases[pid].prog.sites) |-> VNone]

Run(j) ==
  /\ j \notin done /\ SiteDeps(P.sites[j]) \subseteq done
  /\ LET s == P.sites[j]
         pos == [x \in 1..Len(s.args) |-> Resolve(s.args[x], env, A)]
         kws == [x \in 1..Len(s.kw) |-> Resolve(s.kw[x].ref, env, A)]
         act == s.active.c = "none" \/ Truthy(Resolve(s.active, env, A))
     IN env' = [env EXCEPT ![j] = IF act THEN Apply(s.fn, pos \o kws) ELSE VNone]
  /\ done' = done \cup {j} /\ pid' = pid

Next == \E j \in 1..Len(P.sites) : Run(j)
Spec == Init /\ [][Next]_vars

Final == done = 1..Len(P.sites)
Returned ==
  LET outs == [x \in 1..Len(P.ret.refs) |-> Resolve(P.ret.refs[x], env, A)]
  IN CASE P.ret.shape = "single" -> outs[1]
       [] P.ret.shape = "tuple" -> VTup(outs)
       [] P.ret.shape = "list" -> VList(outs)
       [] P.ret.shape = "dict" -> VDict(P.ret.keys, outs)
       [] OTHER -> VNone
Confluence == Final => Returned = Eval(P, Cases[pid].given).val
\* write-once: a result, once written, never changes
WriteOnce == [][\A j \in done : env'[j] = env[j]]_vars
=============================================================================
