------------------------------ MODULE SchedObs ------------------------------
(***************************************************************************)
(* Property level of engine E1: the OBSERVABLE state of one execution of   *)
(* tawazi's scheduler and the predicates the given properties C02-C06,     *)
(* C08, C09 and C14 talk about.  Nothing here mentions how the scheduler   *)
(* is built (no loop, no runnable set, no futures): the same operators are *)
(*   - invariants / action properties of the implementation-shaped model   *)
(*     Scheduler.tla (through its refinement mapping), and                 *)
(*   - the clauses evaluated on every state of every recorded execution of *)
(*     the real code in SchedTrace.tla.                                    *)
(*                                                                         *)
(* A configuration C is a record                                           *)
(*   n    number of nodes (1..n, numbered topologically)                   *)
(*   mc   max_concurrency                                                  *)
(*   deps [1..n -> SUBSET 1..n]  dependencies (args, kwargs, activation)   *)
(*   sel  nodes that take part in this execution (selected, not yet        *)
(*        computed); off \subseteq sel are the ones whose flag is falsy    *)
(*   cp   documented compound priority, seq, res per node                  *)
(* Observable state: ph[n] (phase of node n) and deliv (completions the    *)
(* scheduler has been told about, DESIGN I1).                              *)
(***************************************************************************)
EXTENDS Naturals, Integers, FiniteSets, Sequences

Phases == {"idle", "disp", "run", "ok", "fail", "skip"}

Range(s) == {s[j] : j \in 1..Len(s)}

Dep(C, n) == C.deps[n] \cap C.sel

RECURSIVE Anc(_, _)
Anc(C, n) == LET D == Dep(C, n) IN D \cup UNION {Anc(C, d) : d \in D}

Pooled(C, n) == C.res[n] # "main"

\* literal view: what has happened
Finished(ph, n) == ph[n] \in {"ok", "skip"}
OrderOK(C, ph, n) == \A d \in Dep(C, n) : Finished(ph, d)
InFlightL(C, ph) == {m \in C.sel : ph[m] \in {"disp", "run"}}
PooledInFlightL(C, ph) == {m \in InFlightL(C, ph) : Pooled(C, m)}
ReadyL(C, ph) == {m \in C.sel : ph[m] = "idle" /\ OrderOK(C, ph, m)}

\* delivered view: what the scheduler has been told (I1)
Started(ph, n) == ph[n] \in {"disp", "run", "ok", "fail"}
InFlightD(C, ph, deliv) == {m \in C.sel : Started(ph, m) /\ m \notin deliv}
PooledInFlightD(C, ph, deliv) == {m \in InFlightD(C, ph, deliv) : Pooled(C, m)}
ReadyD(C, ph, deliv) == {m \in C.sel : ph[m] = "idle" /\ Dep(C, m) \subseteq deliv}

Best(C, S) == {m \in S : \A x \in S : C.cp[x] <= C.cp[m]}

(* C04 *)
BoundOK(C, ph) == Cardinality(PooledInFlightL(C, ph)) <= C.mc
MainAlone(C, ph) == Cardinality({m \in C.sel : C.res[m] = "main" /\ ph[m] = "run"}) <= 1

(* C05: on the intervals entry..return *)
NoOverlap(C, ph) ==
  \A s \in C.sel : (C.seq[s] /\ ph[s] = "run") => \A m \in C.sel \ {s} : ph[m] # "run"
(* C05 at dispatch: nothing else handed out and unfinished next to a sequential node *)
SeqAlone(C, ph) ==
  \A s \in C.sel : (C.seq[s] /\ ph[s] \in {"disp", "run"}) =>
      \A m \in C.sel \ {s} : ph[m] \notin {"disp", "run"}

(* C06: n is started now; no delivered-ready unstarted node beats it *)
MaxPriority(C, ph, deliv, n) == \A m \in ReadyD(C, ph, deliv) \ {n} : C.cp[m] <= C.cp[n]

(* C08: blocking is justified (inflight / ready are passed in the view that applies) *)
Justified(C, inflight, ready, seqInFlight) ==
  \/ Cardinality({m \in inflight : Pooled(C, m)}) >= C.mc
  \/ ready = {}
  \/ seqInFlight
  \/ \E m \in Best(C, ready) : C.seq[m]
JustifiedD(C, ph, deliv) ==
  Justified(C, InFlightD(C, ph, deliv), ReadyD(C, ph, deliv),
            \E s \in InFlightD(C, ph, deliv) : C.seq[s])
JustifiedL(C, ph) ==
  Justified(C, InFlightL(C, ph), ReadyL(C, ph), \E s \in InFlightL(C, ph) : C.seq[s])

(* C14 *)
NoFailedAncestor(C, ph, n) == \A a \in Anc(C, n) : ph[a] # "fail"

(* C03 / C09 on a normal return *)
Complete(C, ph) == \A n \in C.sel : ph[n] = (IF n \in C.off THEN "skip" ELSE "ok")
=============================================================================
