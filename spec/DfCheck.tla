------------------------------- MODULE DfCheck -------------------------------
(***************************************************************************)
(* Code -> specification for engine E2 (C01, C10, C17, C20): what the real *)
(* library returned and which call sites it executed, for generated        *)
(* describing functions, is compared with the reference semantics Eval of  *)
(* Dataflow.tla.  Input (IOEnv.CASE_FILE):                                 *)
(*   {"progs": [P, ...], "obs": [{p, given, raised, errclass, val, exec,   *)
(*                                dup, async, built, twice}, ...]}         *)
(* One state per observation.                                              *)
(***************************************************************************)
EXTENDS Dataflow, TLC, Json, IOUtils

Data == JsonDeserialize(IOEnv.CASE_FILE)
Progs == Data.progs
Obs == Data.obs
NO == Len(Obs)
RangeOf(s) == {s[j] : j \in 1..Len(s)}

VARIABLE o
Init == o \in 1..NO
Next == UNCHANGED o
Spec == Init /\ [][Next]_o

RECURSIVE HasSub(_)
HasSub(P) == \E j \in 1..Len(P.sites) : P.sites[j].kind = "sub"
RECURSIVE HasFlag(_)
HasFlag(P) == \/ \E j \in 1..Len(P.sites) : P.sites[j].active.c # "none"
              \/ \E q \in 1..Len(P.subs) : HasFlag(P.subs[q])

Clauses(S) == {p[2] : p \in {q \in S : q[1]}}
Count(reg, cond) == IF cond THEN TLCSet(reg, TLCGet(reg) + 1) ELSE TRUE

Bad(W) ==
  LET P == Progs[W.p]
      exp == Eval(P, W.given)
      inEq == ~exp.err              \* inside the equivalence (the plain body does not raise)
      wrongVal == W.raised \/ W.val # exp.val
      wrongExec == ~W.raised /\ RangeOf(W.exec) # exp.exec
  IN Clauses({
       <<~W.built /\ ~W.twice, "C01.build-error">>,
       <<~W.built /\ HasSub(P), "C20.build-error">>,
       <<W.built /\ exp.argerr /\ ~(W.raised /\ W.errclass \in {"TawaziArgumentException", "TypeError"}), "C01.argerror">>,
       <<W.built /\ inEq /\ wrongVal, "C01.value">>,
       <<W.built /\ inEq /\ wrongVal /\ HasSub(P), "C20.value">>,
       <<W.built /\ inEq /\ wrongVal /\ HasFlag(P), "C10.value">>,
       <<W.built /\ inEq /\ wrongVal /\ W.async, "C17.value">>,
       <<W.built /\ inEq /\ wrongExec /\ HasFlag(P), "C10.exec">>,
       <<W.built /\ inEq /\ wrongExec /\ ~HasFlag(P), "C03.exec">>,
       <<W.built /\ inEq /\ wrongExec /\ HasSub(P), "C20.exec">>,
       <<W.built /\ inEq /\ wrongExec /\ W.async, "C17.exec">>,
       <<W.built /\ W.dup, "C03.twice">>})

Check ==
  LET W == Obs[o]
      P == Progs[W.p]
      exp == Eval(P, W.given)
      b == Bad(W)
  IN /\ Count(1, TRUE)
     /\ Count(2, ~exp.err)
     /\ Count(3, ~exp.err /\ HasSub(P))
     /\ Count(4, ~exp.err /\ HasFlag(P) /\ Cardinality(exp.exec) < Cardinality(RangeOf(W.exec)) + 100 /\
                 \E j \in 1..Len(P.sites) : P.sites[j].active.c # "none")
     /\ Count(5, ~exp.err /\ W.async)
     /\ Count(6, exp.argerr)
     /\ (b = {} \/ PrintT("MISMATCH " \o ToJson([o |-> o, c |-> b, expval |-> exp.val, expexec |-> exp.exec])))

ASSUME \A reg \in 1..6 : TLCSet(reg, 0)
Counts == PrintT("COUNTS " \o ToJson([rows |-> TLCGet(1), ineq |-> TLCGet(2), nested |-> TLCGet(3),
                                       flagged |-> TLCGet(4), async |-> TLCGet(5), argerr |-> TLCGet(6)]))
=============================================================================
