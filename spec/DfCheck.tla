------------------------------- MODULE DfCheck -------------------------------
(***************************************************************************)
(* Code -> specification for engine E2 (C01, C10, C17, C20): what the real *)
(* library returned and which call sites it executed, for generated        *)
(* describing functions, is compared with the reference semantics Eval of  *)
(* Dataflow.tla.  Input (IOEnv.CASE_FILE):                                 *)
(*   {"progs": [P, ...], "obs": [{p, given, raised, errclass, val, exec,   *)
(*                                dup, async, built, twice, constret, conc,*)
(*                                loop, pre}]}                             *)
(* One state per observation.                                              *)
(***************************************************************************)
EXTENDS Dataflow, TLC, Json, IOUtils

Data == JsonDeserialize(IOEnv.CASE_FILE)
Progs == Data.progs
Obs == Data.obs
NO == Len(Obs)
RangeOf(s) == {s[j] : j \in 1..Len(s)}

VARIABLE o
Init == o \in 1..NO
Next == UNCHANGED o
Spec == Init /\ [][Next]_o

RECURSIVE HasSub(_)
HasSub(P) == \E j \in 1..Len(P.sites) : P.sites[j].kind = "sub"
RECURSIVE HasFlag(_)
HasFlag(P) == \/ \E j \in 1..Len(P.sites) : P.sites[j].active.c # "none"
              \/ \E q \in 1..Len(P.subs) : HasFlag(P.subs[q])

\* some value is used through an index path (result[k], an unpacked element, parameter[k])
RECURSIVE HasIndexing(_)
HasIndexing(P) ==
  LET Refs(st) == {st.args[x] : x \in 1..Len(st.args)} \cup {st.kw[x].ref : x \in 1..Len(st.kw)} \cup {st.active}
  IN \/ \E j \in 1..Len(P.sites) : P.sites[j].unpack > 0 \/ \E r \in Refs(P.sites[j]) : Len(r.path) > 0
     \/ \E x \in 1..Len(P.ret.refs) : Len(P.ret.refs[x].path) > 0
     \/ \E q \in 1..Len(P.subs) : HasIndexing(P.subs[q])

\* some value is used through a LIST key or a TUPLE key (containers that tell the two apart)
RECURSIVE HasSeqKey(_)
HasSeqKey(P) ==
  LET Refs(st) == {st.args[x] : x \in 1..Len(st.args)} \cup {st.kw[x].ref : x \in 1..Len(st.kw)} \cup {st.active}
      SeqKey(r) == \E y \in 1..Len(r.path) : r.path[y].k \in {"li", "ti"}
  IN \/ \E j \in 1..Len(P.sites) : \E r \in Refs(P.sites[j]) : SeqKey(r)
     \/ \E x \in 1..Len(P.ret.refs) : SeqKey(P.ret.refs[x])
     \/ \E q \in 1..Len(P.subs) : HasSeqKey(P.subs[q])

RECURSIVE HasDebug(_)
HasDebug(P) == \/ \E j \in 1..Len(P.sites) : P.sites[j].debug
               \/ \E q \in 1..Len(P.subs) : HasDebug(P.subs[q])

Clauses(S) == {p[2] : p \in {q \in S : q[1]}}
Count(reg, cond) == IF cond THEN TLCSet(reg, TLCGet(reg) + 1) ELSE TRUE

\* a nested DAG (at any depth) whose return contains a literal constant
RECURSIVE SubReturnsConst(_)
SubReturnsConst(P) == \E q \in 1..Len(P.subs) :
                         \/ \E x \in 1..Len(P.subs[q].ret.refs) : P.subs[q].ret.refs[x].c = "const"
                         \/ SubReturnsConst(P.subs[q])

Bad(W) ==
  LET P == Progs[W.p]
      exp == Eval(P, W.given)
      inEq == ~exp.err              \* inside the equivalence (the plain body does not raise)
      \* known finding: a deactivated nested DAG shows a setup result that it returns directly instead of None
      \* (the kept value may feed an activation flag or an operator further down: the whole observation - value, executed
      \* sites, or the raise of a node that received it - is then the one of the "keep" reading of Dataflow.tla)
      matchLetter == ~W.raised /\ W.val = exp.val /\ RangeOf(W.exec) = exp.exec \ RangeOf(W.pre)
      matchKeep == IF exp.errK THEN W.raised ELSE ~W.raised /\ W.val = exp.valK /\ RangeOf(W.exec) = exp.execK \ RangeOf(W.pre)
      keptSetup == ~matchLetter /\ matchKeep
      \* known finding: an output of a deactivated nested DAG that is an indexed / unpacked part of an inner result is
      \* computed by indexing the None of the deactivated inner node, and the call raises
      idxNone == W.raised /\ exp.errI /\ W.errclass \in {"AttributeError", "TypeError"}
      wrongVal == (W.raised \/ W.val # exp.val) /\ ~keptSetup /\ ~idxNone
      \* setup call sites computed by an earlier call on the same DAG object (W.pre) are not executed again
      wrongExec == ~W.raised /\ RangeOf(W.exec) # exp.exec \ RangeOf(W.pre) /\ ~keptSetup
      \* known finding: the outer DAG can not be built when a nested DAG returns a literal constant
      literalRet == ~W.built /\ W.constret /\ SubReturnsConst(P)
  IN Clauses({
       <<~W.built /\ ~W.twice /\ ~literalRet, "C01.build-error">>,
       <<~W.built /\ HasSub(P) /\ ~literalRet, "C20.build-error">>,
       <<literalRet, "C20.build-error-literal-return">>,
       \* a missing / surplus argument must make the call raise (TawaziArgumentException / TypeError are the
       \* documented classes; another node of the same program may legitimately fail first, so only the
       \* raise itself is demanded)
       <<W.built /\ exp.argerr /\ ~W.raised, "C01.argerror">>,
       <<W.built /\ inEq /\ wrongVal, "C01.value">>,
       <<W.built /\ inEq /\ wrongVal /\ HasSub(P), "C20.value">>,
       \* C02: what a node receives is its dependency's return value after the indexing the user wrote
       <<W.built /\ inEq /\ wrongVal /\ HasIndexing(P), "C02.value-through-indexing">>,
       <<W.built /\ inEq /\ wrongVal /\ HasFlag(P), "C10.value">>,
       <<W.built /\ inEq /\ keptSetup, "C10.deactivated-setup-output">>,
       <<W.built /\ inEq /\ idxNone, "C10.deactivated-indexed-output">>,
       <<W.built /\ inEq /\ wrongVal /\ W.async, "C17.value">>,
       <<W.built /\ inEq /\ wrongExec /\ HasFlag(P), "C10.exec">>,
       <<W.built /\ inEq /\ wrongExec /\ ~HasFlag(P), "C03.exec">>,
       <<W.built /\ inEq /\ wrongExec /\ HasSub(P), "C20.exec">>,
       <<W.built /\ inEq /\ wrongExec /\ W.async, "C17.exec">>,
       \* C13, plain calls: with RUN_DEBUG_NODES off no debug call site is entered (the program handed over then has them
       \* switched off), with it on every debug call site of an active DAG is entered once
       <<W.built /\ inEq /\ wrongExec /\ HasDebug(P), "C13.call-exec">>,
       <<W.built /\ W.dup, "C03.twice">>,
       \* C04: a node asked to run on the main thread was entered on the thread that called the DAG, every other node on a
       \* worker thread - also when the node belongs to a nested DAG
       <<W.built /\ W.wrongthread, "C04.thread">>,
       \* C15: the last of several calls on one DAG object returns what a DAG built afresh returns for the same arguments
       <<W.built /\ ~W.fresh_same, "C15.not-fresh">>,
       \* conc = 1: one of several simultaneous calls of one DAG from different threads (C16)
       \* conc = 2: one of several awaits of one AsyncDAG gathered in one event loop (C17)
       <<W.built /\ inEq /\ (wrongVal \/ wrongExec) /\ W.conc = 1, "C16.concurrent-calls">>,
       <<W.built /\ inEq /\ (wrongVal \/ wrongExec) /\ W.conc = 2, "C17.gathered-awaits">>,
       \* conc = 3: the coroutines of several calls of one AsyncDAG were all created before the first was awaited; awaited
       \* one after the other they are calls made one after the other (setup results of an earlier one are in W.pre)
       <<W.built /\ inEq /\ (wrongVal \/ wrongExec) /\ W.conc = 3, "C17.created-then-awaited">>,
       \* loop = 2: a sibling coroutine was not served while async-thread nodes were running
       <<W.loop = 2, "C17.loop-blocked">>})

Check ==
  LET W == Obs[o]
      P == Progs[W.p]
      exp == Eval(P, W.given)
      b == Bad(W)
  IN /\ Count(1, TRUE)
     /\ Count(2, ~exp.err)
     /\ Count(3, ~exp.err /\ HasSub(P))
     /\ Count(4, ~exp.err /\ HasFlag(P) /\ Cardinality(exp.exec) < Cardinality(RangeOf(W.exec)) + 100 /\
                 \E j \in 1..Len(P.sites) : P.sites[j].active.c # "none")
     /\ Count(5, ~exp.err /\ W.async)
     /\ Count(6, exp.argerr)
     /\ Count(7, ~exp.err /\ W.conc = 1)
     /\ Count(8, ~exp.err /\ W.conc = 2)
     /\ Count(9, W.loop = 1)
     /\ Count(10, ~exp.err /\ W.conc = 3)
     /\ Count(12, ~exp.err /\ HasIndexing(P))
     /\ Count(13, ~exp.err /\ HasDebug(P))
     /\ Count(14, ~exp.err /\ HasSeqKey(P))
     /\ Count(11, ~exp.err /\ \E q \in exp.exec : Len(q) > 1 /\ LET RECURSIVE IsSetupPath(_, _)
                                                                    IsSetupPath(Q, pth) == IF Len(pth) = 1 THEN Q.sites[pth[1]].setup
                                                                                           ELSE IsSetupPath(Q.subs[Q.sites[pth[1]].sub], Tail(pth))
                                                                IN IsSetupPath(P, q))
     /\ (b = {} \/ PrintT("MISMATCH " \o ToJson([o |-> o, c |-> b, expval |-> exp.val, expexec |-> exp.exec])))

ASSUME \A reg \in 1..14 : TLCSet(reg, 0)
Counts == PrintT("COUNTS " \o ToJson([rows |-> TLCGet(1), ineq |-> TLCGet(2), nested |-> TLCGet(3),
                                       flagged |-> TLCGet(4), async |-> TLCGet(5), argerr |-> TLCGet(6),
                                       threads |-> TLCGet(7), gathered |-> TLCGet(8), loopserved |-> TLCGet(9),
                                       inturn |-> TLCGet(10), nestedsetup |-> TLCGet(11), indexed |-> TLCGet(12), withdebug |-> TLCGet(13),
                                       seqkeys |-> TLCGet(14)]))
=============================================================================
