------------------------------ MODULE SelCheck ------------------------------
(***************************************************************************)
(* Code -> specification for engine E3: every observation the harness made *)
(* on the real library (one executor / setup / call per row) is compared   *)
(* with what Selection.tla defines.  Input (IOEnv.CASE_FILE):              *)
(*   {"dags": [ {n, deps, kind, const, built, setuparg, obs: [row, ...]} ]} *)
(* row = [mode, pre, r, x, t, bogus,                                       *)
(*        errOff, gOff, eOff, dupOff, retOff, badOff,                      *)
(*        errOn,  gOn,  eOn,  dupOn,  retOn,  badOn]                       *)
(* Sets of nodes are bit masks, -1 = "not given"; mode 0 executor, 1 setup,*)
(* 2 plain call; err 0 none / 1 ValueError / 2 anything else; the second   *)
(* half is the same case run with RUN_DEBUG_NODES on.                      *)
(* One state per (dag, row); the invariant prints the violated clauses.    *)
(***************************************************************************)
EXTENDS Selection, TLC, Json, IOUtils

Data == JsonDeserialize(IOEnv.CASE_FILE)
Dags == Data.dags
ND == Len(Dags)

RangeOf(s) == {s[j] : j \in 1..Len(s)}
NormDag(G) == [n |-> G.n, deps |-> [k \in 1..G.n |-> RangeOf(G.deps[k])], kind |-> G.kind,
               const |-> G.const]
Ds == [d \in 1..ND |-> NormDag(Dags[d])]

Pow2(k) == 2 ^ k
Bits(n, m) == IF m = -1 THEN None ELSE {k \in 1..n : (m \div Pow2(k - 1)) % 2 = 1}

\* alias resolution (dag.py: alias_to_ids): a node reference is itself; a string is first a TAG (all nodes carrying it),
\* only then an id; a string that is neither is unknown (ValueError)
IdOf(k) == "f" \o ToString(k)
Tagged(G, s) == {k \in 1..G.n : \E q \in 1..Len(G.tagseq[k]) : G.tagseq[k][q] = s}
ResolveAlias(G, a) == IF a.c = "ref" THEN {a.n}
                      ELSE IF Tagged(G, a.s) # {} THEN Tagged(G, a.s)
                      ELSE {k \in 1..G.n : IdOf(k) = a.s}
ResolveAll(G, A) == IF ~A.given THEN None ELSE UNION {ResolveAlias(G, A.als[q]) : q \in 1..Len(A.als)}
UnknownAlias(G, A) == A.given /\ \E q \in 1..Len(A.als) : ResolveAlias(G, A.als[q]) = {}

VARIABLES d, j
Init == d \in 1..ND /\ j \in 0..Len(Dags[d].obs)
Next == UNCHANGED <<d, j>>
Spec == Init /\ [][Next]_<<d, j>>

Clauses(S) == {p[2] : p \in {q \in S : q[1]}}

\* clauses for one run of a case (flag = debug flag of this half of the row)
Half(D, mode, pre, R, X, T, bogus, flag, err, g, e, dup, ret, bad) ==
  LET Teff == IF mode = 1 /\ ~Given(T) THEN SetupNodes(D) ELSE T   \* setup(): implicit targets
      must == IF mode = 2 THEN FALSE ELSE (bogus \/ MustRaise(D, R, X, T))
      may == IF mode = 2 THEN FALSE
             ELSE (bogus \/ MayRaise(D, R, X, T) \/ MayRaise(D, R, X, Teff) \/ TargetExcluded(D, R, X, Teff))
      S == CASE mode = 0 -> Closure(D, R, X, T)
             [] mode = 1 -> SetupClosure(D, R, X, T)
             [] mode = 2 -> Nodes(D)
      dbg == DebugNodes(D)
      runs == (IF flag THEN S ELSE S \ dbg) \ pre
  IN Clauses({
       <<must /\ err # 1, "C12.must-raise">>,
       <<err # 0 /\ e # {}, "C12.raise-ran">>,
       <<err = 1 /\ ~may, "C12.spurious-raise">>,
       <<err = 2, "C12.internal">>,
       <<err = 0 /\ ~must /\ mode # 1 /\ NonDebugPart(D, e) # NonDebugPart(D, S) \ pre, "C12.exec">>,
       \* C03: exactly the nodes of the selection (as the specification resolves the aliases) are entered, nothing else
       <<err = 0 /\ ~must /\ mode # 1 /\ NonDebugPart(D, e) # NonDebugPart(D, S) \ pre, "C03.selection-exec">>,
       <<err = 0 /\ ~must /\ mode = 1 /\ e # runs, "C11.setup-exec">>,
       <<err = 0 /\ dup # {}, "C03.twice">>,
       <<err = 0 /\ mode = 2 /\ e # runs, "C03.call-exec">>,
       \* (an excluded DEBUG node whose inputs are all available is taken along again when the flag is on - the repository's
       \* tests/test_exclude_nodes.py::test_with_debug_nodes demands it; excluded non-debug nodes are covered by C12.exec)
       <<~flag /\ e \cap dbg # {}, "C13.off-ran">>,
       <<err = 0 /\ flag /\ ~must /\ mode # 1 /\ ~((S \cap dbg) \ pre \subseteq e), "C13.on-missing">>,
       <<err = 0 /\ flag /\ ~(\A x \in (e \cap dbg) \ S : D.deps[x] \subseteq e \cup pre), "C13.pulled-input">>,
       \* C03: such a node is outside the selection AND not a debug node the run may take along: it must not be entered
       <<err = 0 /\ flag /\ ~(\A x \in (e \cap dbg) \ S : D.deps[x] \subseteq e \cup pre), "C03.entered-outside-selection">>,
       <<err = 0 /\ flag /\ ~must /\ mode = 0 /\ ~(MustPull(D, S) \subseteq e), "C03.runnable-debug-node-left-out">>,
       <<err = 0 /\ mode # 1 /\ ret # (e \cup (pre \cap Nodes(D))), "C12.ret">>,
       <<err = 0 /\ bad # {}, "C12.retval">>})

Row(dd, jj) ==
  LET D == Ds[dd]
      o == Dags[dd].obs[jj]
      n == D.n
      mode == o[1]
      pre == Bits(n, o[2])
      A == Dags[dd].als[jj]
      \* the selections are what the specification resolves the aliases to (the masks the generator intended are o[3..5])
      R == ResolveAll(Dags[dd], A[1])
      X == ResolveAll(Dags[dd], A[2])
      T == ResolveAll(Dags[dd], A[3])
      bogus == UnknownAlias(Dags[dd], A[1]) \/ UnknownAlias(Dags[dd], A[2]) \/ UnknownAlias(Dags[dd], A[3])
      intended == <<Bits(n, o[3]), Bits(n, o[4]), Bits(n, o[5])>>
      off == Half(D, mode, pre, R, X, T, bogus, FALSE, o[7], Bits(n, o[8]), Bits(n, o[9]), Bits(n, o[10]), Bits(n, o[11]), Bits(n, o[12]))
      on == Half(D, mode, pre, R, X, T, bogus, TRUE, o[13], Bits(n, o[14]), Bits(n, o[15]), Bits(n, o[16]), Bits(n, o[17]), Bits(n, o[18]))
      both == Clauses({
        <<o[7] = 0 /\ o[13] = 0 /\ NonDebugPart(D, Bits(n, o[11])) # NonDebugPart(D, Bits(n, o[17])), "C13.value-differs">>,
        <<(o[7] = 0) # (o[13] = 0), "C13.outcome-differs">>,
        <<~bogus /\ <<R, X, T>> # intended, "WF.alias-resolution">>,
        <<bogus # (o[6] = 1), "WF.alias-resolution">>,
        <<mode # 2 /\ ~LemmaClosed(D, R, X, T), "LEMMA.closed">>,
        <<mode # 2 /\ ~LemmaSameReading(D, R, X, T), "LEMMA.reading">>})
  IN [off |-> off, on |-> on, both |-> both]

DagLevel(dd) == Clauses({
   \* the activation flag is a dependency: a non-debug node may not be activated by a debug node's result, a setup node
   \* only by a setup node's result
   <<Dags[dd].actdep[1] # 0 /\ Dags[dd].built /\ Ds[dd].kind[Dags[dd].actdep[2]] = "debug" /\ Ds[dd].kind[Dags[dd].actdep[1]] # "debug",
     "C13.illegal-built">>,
   <<Dags[dd].actdep[1] # 0 /\ Dags[dd].built /\ Ds[dd].kind[Dags[dd].actdep[1]] = "setup" /\ Ds[dd].kind[Dags[dd].actdep[2]] # "setup",
     "C11.illegal-built">>,
   <<Dags[dd].setuparg # 0 /\ Dags[dd].built, "C11.setup-takes-dag-argument">>,
   <<Dags[dd].setuparg = 0 /\ Dags[dd].actdep[1] = 0 /\ Legal(Ds[dd]) /\ ~Dags[dd].built, "C11.legal-rejected">>,
   <<~Legal(Ds[dd]) /\ Dags[dd].built /\ \E n \in Nodes(Ds[dd]) : Ds[dd].kind[n] = "setup" /\ \E x \in Ds[dd].deps[n] : Ds[dd].kind[x] # "setup", "C11.illegal-built">>,
   <<~Legal(Ds[dd]) /\ Dags[dd].built /\ \E n \in Nodes(Ds[dd]) : Ds[dd].kind[n] # "debug" /\ \E x \in Ds[dd].deps[n] : Ds[dd].kind[x] = "debug", "C13.illegal-built">>})

Count(reg, cond) == IF cond THEN TLCSet(reg, TLCGet(reg) + 1) ELSE TRUE

Check ==
  IF j = 0
  THEN LET b == DagLevel(d) IN
       b = {} \/ PrintT("MISMATCH " \o ToJson([d |-> d, j |-> 0, off |-> b, on |-> {}, both |-> {}]))
  ELSE LET r == Row(d, j)
           o == Dags[d].obs[j]
           D == Ds[d]
       IN /\ Count(1, TRUE)
          /\ Count(2, o[7] = 1)                                   \* a ValueError case
          /\ Count(3, o[3] # -1 /\ o[4] # -1 /\ o[5] # -1)        \* all three selections given
          /\ Count(4, Bits(D.n, o[15]) \cap DebugNodes(D) # {})  \* a debug node ran with the flag on
          /\ Count(5, o[1] = 1)                                   \* setup mode
          /\ Count(6, o[2] # 0)                                   \* precomputed setup nodes
          /\ (r.off \cup r.on \cup r.both = {}
              \/ PrintT("MISMATCH " \o ToJson([d |-> d, j |-> j, off |-> r.off, on |-> r.on, both |-> r.both])))

ASSUME \A reg \in 1..6 : TLCSet(reg, 0)
Counts == PrintT("COUNTS " \o ToJson([rows |-> TLCGet(1), raises |-> TLCGet(2), rxt |-> TLCGet(3),
                                       debugran |-> TLCGet(4), setupmode |-> TLCGet(5), pre |-> TLCGet(6)]))
=============================================================================
