--------------------------- MODULE LifecycleTrace ---------------------------
(***************************************************************************)
(* Code -> specification for engine E4: histories of operations on real    *)
(* DAG instances, executors and cache files, recorded by the harness, are  *)
(* checked step by step against Lifecycle.tla.  Input (IOEnv.TRACE_FILE):  *)
(*   {"dags": [D...], "traces": [{tid, d, ev: [event...]}]}                 *)
(* D = {n, deps, kind, const, np, defaults, argof}; an event is a uniform  *)
(* record (see harness/e4_driver.py):                                      *)
(*   op i j x f fc r xx t dep args out e dup used nonces retn fresh keys   *)
(*   xkeys cached                                                          *)
(* The specification is total; violated clauses accumulate in `viol`.      *)
(***************************************************************************)
EXTENDS Lifecycle, TLC, Json, IOUtils

Data == JsonDeserialize(IOEnv.TRACE_FILE)
Traces == Data.traces
NT == Len(Traces)
RangeOf(s) == {s[q] : q \in 1..Len(s)}
NormDag(G) == [n |-> G.n, deps |-> [k \in 1..G.n |-> RangeOf(G.deps[k])], kind |-> G.kind,
               const |-> G.const, np |-> G.np, defaults |-> G.defaults, argof |-> G.argof,
               off |-> RangeOf(G.off),          \* call sites with a constant falsy activation flag: never entered
               nonefn |-> RangeOf(G.nonefn)]    \* nodes whose function returns None (their value carries no counter)
Ds == [q \in 1..Len(Data.dags) |-> NormDag(Data.dags[q])]
Bits(n, m) == IF m = -1 THEN None ELSE {k \in 1..n : (m \div (2 ^ (k - 1))) % 2 = 1}

NI == 3     \* instances: the DAG and up to two deep copies
NX == 4     \* executors
NF == 3     \* cache files

VARIABLES tid, pos, val, ex, cache, maxn, viol, cnt
vars == <<tid, pos, val, ex, cache, maxn, viol, cnt>>

NoEx == [i |-> 0, S |-> {}, st |-> "none", dep |-> None, fc |-> 0]
Init ==
  /\ tid \in 1..NT /\ pos = 1
  /\ val = [i \in 1..NI |-> [k \in 1..Ds[Traces[tid].d].n |-> 0]]
  /\ ex = [x \in 1..NX |-> NoEx]
  /\ cache = [f \in 1..NF |-> None]
  /\ maxn = 0 /\ viol = {}
  /\ cnt = [ops |-> 0, reuse |-> 0, failed |-> 0, setupskip |-> 0, restart |-> 0, copy |-> 0, defaults |-> 0, twin |-> 0, altrestart |-> 0]

Clauses(S) == {p[2] : p \in {q \in S : q[1]}}
\* C17, histories: an event of an AsyncDAG history may carry what the SAME history did on the DAG built from the same
\* function (e.tw = <<out, executed, stored keys>>, <<-9, 0, 0>> when there is no such twin).  Both flavours succeed or fail
\* together, and where both succeed they executed the same nodes and hold the same results afterwards.
TwinClause ==
  LET e == Traces[tid].ev[pos]
  IN IF e.tw[1] # -9 /\ (((e.out = 0) # (e.tw[1] = 0)) \/ (e.out = 0 /\ e.tw[1] = 0 /\ (e.e # e.tw[2] \/ e.keys # e.tw[3])))
     THEN {"C17.flavours-differ"} ELSE {}
\* C09: whatever the operation, it returned or raised (out = 6: it had to be ended by the harness's time-out)
HangClause == IF Traces[tid].ev[pos].out = 6 THEN {"C09.hang"} ELSE {}
Mark(names) == viol \cup {[i |-> pos, c |-> nm] : nm \in names \cup TwinClause \cup HangClause}

\* observation of an execution of selection S with arguments args on instance i
\* returns the set of violated clauses; `fullrun` = the execution is expected to run S from scratch
ExecClauses(D, e, S, v) ==
  LET n == D.n
      E == Bits(n, e.e)
      F == Failing(D, e.args, S)
      miss == MissingArg(D, e.args) /\ \E k \in S : D.argof[k] # 0 /\ Effective(D, e.args)[D.argof[k]] = -1
      eff == Effective(D, e.args)
  IN Clauses({
       <<miss /\ e.out # 4, "C01.missing-arg">>,
       <<~miss /\ F # {} /\ e.out # 1, "C14.swallowed">>,
       <<~miss /\ F # {} /\ e.out = 1 /\ ~FailedRunOK(D, S, v, F, E), "C14.downstream">>,
       <<~miss /\ F = {} /\ e.out # 0, "C15.spurious-error">>,
       <<~miss /\ F = {} /\ e.out = 0 /\ E # Runs(D, S, v), "C03.hist-exec">>,
       <<E \cap DoneSet(D, v) # {}, "C11.rerun">>,
       <<Bits(n, e.dup) # {}, "C03.twice">>,
       <<e.out = 0 /\ \E p \in 1..D.np : e.used[p] # -2 /\ e.used[p] # eff[p], "C15.leak-args">>,
       <<e.out = 0 /\ ~e.fresh, "C15.not-fresh">>,
       <<e.out = 0 /\ \E k \in DoneSet(D, v) : e.retn[k] # 0 /\ e.retn[k] # v[k], "C11.stale-value">>,
       <<e.out = 0 /\ \E k \in SetupOf(D, Runs(D, S, v)) \ D.nonefn : e.nonces[k] <= maxn, "C11.value">>})

\* setup values after a successful execution of S on an instance holding v
\* every setup node a successful execution had to run IS computed from now on, whatever the library stored
\* (-1: its value could not be observed, e.g. the key is missing from the DAG-level results)
After(D, e, S, v) == [k \in 1..D.n |-> IF k \in SetupOf(D, Runs(D, S, v)) THEN (IF e.nonces[k] # 0 THEN e.nonces[k] ELSE -1) ELSE v[k]]
MaxOf(D, e) == LET s == {e.nonces[k] : k \in (1..D.n) \ D.nonefn} \cup {maxn} IN CHOOSE m \in s : \A y \in s : y <= m

KeysClauses(D, e, vnew) ==
  Clauses({<<Bits(D.n, e.keys) # DoneSet(D, vnew), "C11.results-keys">>,
           <<e.xkeys # 0, "C15.results-polluted">>})

Step ==
  LET T == Traces[tid]
      D == Ds[T.d]
      e == T.ev[pos]
      n == D.n
      i == e.i
      R == Bits(n, e.r)
      X == Bits(n, e.xx)
      Tg == Bits(n, e.t)
      Dp == Bits(n, e.dep)
      v == val[i]
      must == MustRaise(D, R, X, Tg)
      may == MayRaise(D, R, X, Tg)
      Ssel == IF Given(Dp) THEN AncStar(D, Dp) ELSE Closure(D, R, X, Tg)
  IN
  /\ pos <= Len(T.ev)
  /\ pos' = pos + 1 /\ tid' = tid
  /\ cnt' = [cnt EXCEPT !.ops = @ + 1,
               !.twin = @ + (IF e.tw[1] # -9 THEN 1 ELSE 0),
               !.altrestart = @ + (IF e.op = "restart" /\ e.alt = 1 /\ e.out = 0 /\ \E p \in 1..D.np : e.used[p] # -2 THEN 1 ELSE 0),
               !.failed = @ + (IF e.out = 1 THEN 1 ELSE 0),
               !.reuse = @ + (IF e.op = "exrun" /\ ex[e.x].st \in {"ok", "failed"} THEN 1 ELSE 0),
               !.setupskip = @ + (IF e.op \in {"call", "exrun"} /\ DoneSet(D, v) # {} THEN 1 ELSE 0),
               !.restart = @ + (IF e.op = "restart" THEN 1 ELSE 0),
               !.copy = @ + (IF e.op = "copy" THEN 1 ELSE 0),
               !.defaults = @ + (IF e.op = "call" /\ \E p \in 1..D.np : p > Len(e.args) \/ e.args[p] = -1 THEN 1 ELSE 0)]
  /\ CASE e.op = "call" ->
            LET S == Nodes(D)
                ok == e.out = 0
                vnew == IF ok THEN After(D, e, S, v) ELSE v
            IN /\ viol' = Mark(ExecClauses(D, e, S, v) \cup KeysClauses(D, e, vnew))
               /\ val' = [val EXCEPT ![i] = vnew]
               /\ maxn' = IF ok THEN MaxOf(D, e) ELSE maxn
               /\ UNCHANGED <<ex, cache>>
       [] e.op = "setup" ->
            LET Teff == IF Given(Tg) THEN Tg ELSE SetupNodes(D)
                S == SetupClosure(D, R, X, Tg)
                mayS == may \/ MayRaise(D, R, X, Teff) \/ TargetExcluded(D, R, X, Teff)
                raised == e.out = 3
                ok == e.out = 0
                vnew == IF ok THEN After(D, e, S, v) ELSE v
                bad == Clauses({
                  <<must /\ ~raised, "C12.must-raise">>,
                  <<raised /\ ~mayS, "C12.spurious-raise">>,
                  <<e.out = 6, "C09.hang">>,
                  <<e.out \notin {0, 3}, "C15.spurious-error">>,
                  <<raised /\ Bits(n, e.e) # {}, "C12.raise-ran">>,
                  <<ok /\ ~must /\ Bits(n, e.e) # Runs(D, S, v), "C11.setup-exec">>,
                  <<Bits(n, e.e) \cap DoneSet(D, v) # {}, "C11.rerun">>,
                  <<ok /\ \E k \in SetupOf(D, Runs(D, S, v)) \ D.nonefn : e.nonces[k] <= maxn, "C11.value">>})
            IN /\ viol' = Mark(bad \cup KeysClauses(D, e, vnew))
               /\ val' = [val EXCEPT ![i] = vnew]
               /\ maxn' = IF ok THEN MaxOf(D, e) ELSE maxn
               /\ UNCHANGED <<ex, cache>>
       [] e.op = "setupfail" ->
            \* setup() during which the first setup node entered raises (fault injected by the harness): the call raises that
            \* error - it neither hangs nor succeeds -, nothing is stored, and the instance can be set up afterwards
            LET S == SetupClosure(D, None, None, None)
                runs == Runs(D, S, v)
                E == Bits(n, e.e)
                bad == Clauses({
                  <<e.out = 6, "C09.hang">>,
                  <<runs = {} /\ (e.out # 0 \/ E # {}), "C11.rerun">>,
                  <<runs # {} /\ e.out = 0, "C14.swallowed">>,
                  <<runs # {} /\ e.out \notin {0, 1, 6}, "C14.internal">>,
                  <<~(E \subseteq runs), "C11.setup-exec">>})
            IN /\ viol' = Mark(bad \cup KeysClauses(D, e, v))
               /\ UNCHANGED <<val, ex, cache, maxn>>
       [] e.op = "exsetup" /\ ex[e.x].st # "none" ->
            \* executor.setup(): the setup part of the executor's own selection (dag.py: DAGExecution.setup)
            LET ii == ex[e.x].i
                vv == val[ii]
                \* an executor built with cache_deps_of has no target / exclude selection of its own: its setup() is the
                \* setup() of the whole DAG (what the code does and its comment says; no listed property asks for less)
                S == IF Given(ex[e.x].dep) THEN SetupNodes(D) ELSE ex[e.x].S \cap SetupNodes(D)
                ok == e.out = 0
                vnew == IF ok THEN After(D, e, S, vv) ELSE vv
                bad == Clauses({
                  <<e.out # 0, "C15.spurious-error">>,
                  <<ok /\ Bits(n, e.e) # Runs(D, S, vv), "C11.setup-exec">>,
                  <<Bits(n, e.e) \cap DoneSet(D, vv) # {}, "C11.rerun">>})
            IN /\ viol' = Mark(bad \cup KeysClauses(D, e, vnew))
               /\ val' = [val EXCEPT ![ii] = vnew]
               /\ maxn' = IF ok THEN MaxOf(D, e) ELSE maxn
               /\ UNCHANGED <<ex, cache>>
       [] e.op = "exnew" ->
            LET raised == e.out = 3
                bad == Clauses({
                  <<must /\ ~raised, "C12.must-raise">>,
                  <<raised /\ ~may, "C12.spurious-raise">>,
                  <<e.out \notin {0, 3}, "C15.spurious-error">>})
            IN /\ viol' = Mark(bad \cup KeysClauses(D, e, v))
               /\ ex' = [ex EXCEPT ![e.x] = IF e.out = 0 THEN [i |-> i, S |-> Ssel, st |-> "new", dep |-> Dp, fc |-> e.fc] ELSE NoEx]
               /\ UNCHANGED <<val, cache, maxn>>
       [] e.op = "exrun" /\ ex[e.x].st = "new" /\ ex[e.x].fc # 0 /\ Given(cache[ex[e.x].fc]) ->
            \* an executor created earlier with from_cache runs now: nothing that is in the file, and nothing the
            \* instance has set up in the meantime, is executed
            LET S == ex[e.x].S
                ii == ex[e.x].i
                vv == val[ii]
                have == cache[ex[e.x].fc]
                E == Bits(n, e.e)
                ok == e.out = 0
                vnew == IF ok THEN [k \in 1..n |-> IF k \in SetupOf(D, S) /\ vv[k] = 0 THEN e.nonces[k] ELSE vv[k]] ELSE vv
                bad == Clauses({
                  <<e.out # 0, "C18.restart-error">>,
                  <<E \cap have # {}, "C18.recomputed">>,
                  <<E \cap DoneSet(D, vv) # {}, "C11.rerun">>,
                  <<E \cap DoneSet(D, vv) # {}, "C03.hist-exec">>,
                  <<ok /\ E # ((S \ have) \ DoneSet(D, vv)) \ D.off, "C18.exec">>,
                  <<ok /\ ~e.fresh, "C18.value">>,
                  <<Bits(n, e.dup) # {}, "C03.twice">>})
            IN /\ viol' = Mark(bad \cup Clauses({<<e.xkeys # 0, "C15.results-polluted">>}))
               /\ val' = [val EXCEPT ![ii] = vnew]
               /\ maxn' = IF ok THEN MaxOf(D, e) ELSE maxn
               /\ ex' = [ex EXCEPT ![e.x].st = IF ok THEN "ok" ELSE "failed"]
               /\ UNCHANGED cache
       [] e.op \in {"exrun", "cacherun"} /\ ex[e.x].st = "new" ->
            LET S == ex[e.x].S
                ii == ex[e.x].i
                vv == val[ii]
                ok == e.out = 0
                vnew == IF ok THEN After(D, e, S, vv) ELSE vv
                xd == ex[e.x].dep
                cachebad == Clauses({
                  <<e.op = "cacherun" /\ ok /\ Given(xd) /\ Bits(n, e.cached) # CacheDepsContent(D, xd) \cup (DoneSet(D, vnew) \ xd), "C18.cache-content">>,
                  <<e.op = "cacherun" /\ ok /\ ~Given(xd) /\ ~(Runs(D, S, vv) \subseteq Bits(n, e.cached)), "C18.cache-content">>})
            IN /\ viol' = Mark(ExecClauses(D, e, S, vv) \cup KeysClauses(D, e, vnew) \cup cachebad)
               /\ val' = [val EXCEPT ![ii] = vnew]
               /\ maxn' = IF ok THEN MaxOf(D, e) ELSE maxn
               /\ ex' = [ex EXCEPT ![e.x].st = IF ok THEN "ok" ELSE "failed"]
               /\ cache' = IF e.op = "cacherun" /\ ok THEN [cache EXCEPT ![e.f] = Bits(n, e.cached)] ELSE cache
       [] e.op \in {"exrun", "cacherun"} /\ ex[e.x].st \in {"ok", "failed"} ->
            \* single use: refuse, or run the complete selection from scratch
            LET S == ex[e.x].S
                ii == ex[e.x].i
                vv == val[ii]
                refused == e.out = 2 /\ Bits(n, e.e) = {}
                full == ExecClauses(D, e, S, vv) = {}
                ok == e.out = 0
                vnew == IF ok /\ ~refused THEN After(D, e, S, vv) ELSE vv
            IN /\ viol' = Mark(Clauses({<<~refused /\ ~full, "C15.executor-reuse">>}) \cup KeysClauses(D, e, vnew))
               /\ val' = [val EXCEPT ![ii] = vnew]
               /\ maxn' = IF ok THEN MaxOf(D, e) ELSE maxn
               /\ UNCHANGED <<ex, cache>>
       [] e.op = "restart" /\ Given(cache[e.f]) ->
            \* executor(from_cache=f, selection) run once: nothing that is in the file is executed
            LET S == Ssel
                have == cache[e.f]
                E == Bits(n, e.e)
                ok == e.out = 0
                vnew == IF ok THEN [k \in 1..n |-> IF k \in SetupOf(D, S) /\ v[k] = 0 THEN e.nonces[k] ELSE v[k]] ELSE v
                bad == Clauses({
                  <<e.out # 0, "C18.restart-error">>,
                  <<E \cap have # {}, "C18.recomputed">>,
                  <<ok /\ E # ((S \ have) \ DoneSet(D, v)) \ D.off, "C18.exec">>,
                  <<ok /\ ~e.fresh, "C18.value">>,
                  \* a restart called with other arguments than the run that wrote the file (e.alt = 1, all given): a node it
                  \* executes that reads a DAG input received the argument of THIS call
                  <<ok /\ e.alt = 1 /\ \E p \in 1..D.np : e.used[p] # -2 /\ e.used[p] # e.args[p], "C02.restart-argument">>,
                  <<Bits(n, e.dup) # {}, "C03.twice">>})
            IN /\ viol' = Mark(bad \cup Clauses({<<e.xkeys # 0, "C15.results-polluted">>}))
               /\ val' = [val EXCEPT ![i] = vnew]
               /\ maxn' = IF ok THEN MaxOf(D, e) ELSE maxn
               /\ UNCHANGED <<ex, cache>>
       [] e.op = "gsetup" ->
            \* setup() of instances i and j at the same time (gathered awaits / two threads): both return, every setup
            \* node that is not yet computed on an instance runs exactly once for it
            LET vj == val[e.j]
                need(k) == (IF k \in SetupNodes(D) /\ v[k] = 0 THEN 1 ELSE 0) + (IF k \in SetupNodes(D) /\ vj[k] = 0 THEN 1 ELSE 0)
                ok == e.out = 0
                bad == Clauses({
                  <<e.out = 6, "C09.hang">>,
                  <<e.out = 6, "C17.concurrent-setup-hang">>,
                  <<e.out \notin {0, 6}, "C15.spurious-error">>,
                  <<ok /\ \E k \in 1..n : e.counts[k] # need(k), "C11.setup-exec">>})
            IN /\ viol' = Mark(bad)
               /\ val' = IF ok THEN [val EXCEPT ![i] = [k \in 1..n |-> IF k \in SetupNodes(D) THEN e.nonces[k] ELSE v[k]],
                                                 ![e.j] = [k \in 1..n |-> IF k \in SetupNodes(D) THEN e.nonces2[k] ELSE vj[k]]]
                          ELSE val
               /\ maxn' = IF ok THEN LET s2 == {e.nonces[k] : k \in 1..n} \cup {e.nonces2[k] : k \in 1..n} \cup {maxn} IN CHOOSE m \in s2 : \A y \in s2 : y <= m ELSE maxn
               /\ UNCHANGED <<ex, cache>>
       [] e.op = "copy" ->
            /\ val' = [val EXCEPT ![e.j] = v]
            /\ viol' = Mark(KeysClauses(D, e, v))
            /\ UNCHANGED <<ex, cache, maxn>>
       [] e.op \in {"compose", "config"} ->
            /\ viol' = Mark(Clauses({<<e.out # 0, "C19.compose-error">>}) \cup
                            {IF c = "C11.results-keys" THEN "C19.original-changed" ELSE c : c \in KeysClauses(D, e, v)})
            /\ UNCHANGED <<val, ex, cache, maxn>>
       [] OTHER ->
            /\ viol' = Mark({"WF.unexpected-op"})
            /\ UNCHANGED <<val, ex, cache, maxn>>

Spec == Init /\ [][Step]_vars
Done == pos = Len(Traces[tid].ev) + 1
Verdict == Done => PrintT("VERDICT " \o ToJson([tid |-> Traces[tid].tid, viol |-> viol, cnt |-> cnt]))
=============================================================================
