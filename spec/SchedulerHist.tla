---------------------------- MODULE SchedulerHist ----------------------------
(***************************************************************************)
(* Specification -> code (and code -> implementation-shaped model) for     *)
(* engine E1.  Scheduler.tla is run on the very configurations the harness *)
(* explored on the real scheduler (IOEnv.CFG_FILE) with a history variable *)
(* of the scheduler-visible events:                                        *)
(*   <<"disp", n>>  a node is handed out (pool, task or inline call)       *)
(*   <<"skip", n>>  a deactivated node is pruned                           *)
(*   <<"wc", D>> / <<"wa", D>>  a wait on thread / asyncio futures returns *)
(*                  the finished set D                                     *)
(*   <<"ie", n>>    an inline (main-thread) node returned or raised        *)
(*   <<"ok">> / <<"raise">>  the outcome                                   *)
(* Every terminal (configuration, history) pair is printed; the harness    *)
(* checks that every history of the real code is among them (conformance   *)
(* of the code to the model TLC verified; a miss is MODEL-DRIFT, not a     *)
(* violation) and replays model histories into the real code.              *)
(* The history variable lives only here: it would multiply the states of   *)
(* the exhaustive runs without adding behaviour.                           *)
(***************************************************************************)
EXTENDS Scheduler, Json, IOUtils

Cfgs == JsonDeserialize(IOEnv.CFG_FILE).cfgs
RangeS(s) == {s[j] : j \in 1..Len(s)}
VARIABLES cid, hist
hvars == <<vars, cid, hist>>

InitH ==
  /\ cid \in 1..Len(Cfgs)
  /\ LET c == Cfgs[cid] IN
     /\ deps = [n \in Node |-> IF n <= c.n THEN RangeS(c.deps[n]) ELSE {}]
     /\ mc = c.mc
     /\ prio = [n \in Node |-> IF n <= c.n THEN c.prio[n] ELSE 0]
     /\ seq = [n \in Node |-> IF n <= c.n THEN c.seq[n] ELSE FALSE]
     /\ res = [n \in Node |-> IF n <= c.n THEN c.res[n] ELSE "main"]
     /\ bad = RangeS(c.bad)
     /\ off = RangeS(c.off)
     /\ pre = (c.n + 1)..N            \* nodes the configuration does not have: pruned like precomputed ones
  /\ cp = CpOf
  /\ pc = "head" /\ graph = Node \ pre /\ runnable = Roots(Node \ pre)
  /\ concRun = {} /\ asyncRun = {} /\ cur = 0
  /\ st = [n \in Node |-> "idle"] /\ obsFail = FALSE /\ outcome = "none" /\ both = FALSE
  /\ hist = <<>>

SetSeq(S) == LET RECURSIVE F(_) F(T) == IF T = {} THEN <<>> ELSE LET x == CHOOSE x \in T : \A y \in T : x <= y IN <<x>> \o F(T \ {x}) IN F(S)
Ev ==
  (IF pc = "disp" /\ pc' # "disp" THEN <<<<"disp", <<cur>>>>>> ELSE <<>>) \o
  (IF pc = "pick" /\ pc' = "head" THEN <<<<"skip", <<cur'>>>>>> ELSE <<>>) \o
  (IF concRun' # concRun /\ pc # "disp" THEN <<<<"wc", SetSeq(concRun \ concRun')>>>> ELSE <<>>) \o
  (IF asyncRun' # asyncRun /\ pc # "disp" THEN <<<<"wa", SetSeq(asyncRun \ asyncRun')>>>> ELSE <<>>) \o
  (IF pc = "inline" /\ pc' # "inline" THEN <<<<"ie", <<cur>>>>>> ELSE <<>>) \o
  (IF outcome' # outcome THEN <<<<outcome', <<>>>>>> ELSE <<>>)

NextH == Next /\ hist' = hist \o Ev /\ cid' = cid
SpecH == InitH /\ [][NextH]_hvars

Terminal == pc = "raised" \/ (pc = "exit" /\ outcome = "ok")
PrintTerm == Terminal => PrintT("HIST " \o ToJson([c |-> Cfgs[cid].cid, h |-> hist]))
=============================================================================
