------------------------------ MODULE Selection ------------------------------
(***************************************************************************)
(* Graph algebra of tawazi (engine E3): which nodes an execution restricted *)
(* by root_nodes R, exclude_nodes X and target_nodes T consists of, the     *)
(* debug-node rules and the setup-only restriction.                         *)
(*   tawazi/_dag/digraph.py : make_subgraph, include_debug_nodes,           *)
(*                            extend_graph_with_debug_nodes                 *)
(*   tawazi/_dag/dag.py     : _pre_setup, BaseDAGExecution.__post_init__    *)
(*                                                                          *)
(* A DAG D is a record  n, deps [1..n -> SUBSET 1..n] (deps[k] \subseteq    *)
(* 1..k-1), kind [1..n -> {"reg","setup","debug"}], const [1..n -> BOOLEAN] *)
(* (the node takes a constant argument, i.e. has an argument holder as      *)
(* predecessor and is therefore not a root of the id graph, DESIGN I3).     *)
(* A selection is R, X, T, each either None (-1 in the encoded form) or a   *)
(* set of nodes.                                                            *)
(***************************************************************************)
EXTENDS Naturals, Integers, FiniteSets, Sequences

Nodes(D) == 1..D.n
Succs(D, S) == {m \in Nodes(D) : D.deps[m] \cap S # {}}

RECURSIVE DescStar(_, _)       \* S and everything depending on S
DescStar(D, S) == LET N1 == S \cup Succs(D, S) IN IF N1 = S THEN S ELSE DescStar(D, N1)
RECURSIVE AncStar(_, _)        \* S and everything S depends on
AncStar(D, S) == LET N1 == S \cup UNION {D.deps[m] : m \in S} IN IF N1 = S THEN S ELSE AncStar(D, N1)

IsRoot(D, n) == D.deps[n] = {} /\ ~D.const[n]
DebugNodes(D) == {n \in Nodes(D) : D.kind[n] = "debug"}
SetupNodes(D) == {n \in Nodes(D) : D.kind[n] = "setup"}

\* a well-formed DAG in the sense of the recorder's build-time checks
Legal(D) ==
  /\ \A n \in Nodes(D) : \A d \in D.deps[n] : d < n
  /\ \A n \in Nodes(D) : D.kind[n] # "debug" => \A d \in D.deps[n] : D.kind[d] # "debug"
  /\ \A n \in Nodes(D) : D.kind[n] = "setup" => \A d \in D.deps[n] : D.kind[d] = "setup"

None == {-1}
Given(S) == S # None

(***************************************************************************)
(* C12: R and everything depending on R, minus X and everything depending  *)
(* on X, restricted to T and the ancestors of T.                           *)
(***************************************************************************)
AfterRoots(D, R) == IF Given(R) THEN DescStar(D, R) ELSE Nodes(D)
AfterExclude(D, R, X) == IF Given(X) THEN AfterRoots(D, R) \ DescStar(D, X) ELSE AfterRoots(D, R)
Closure(D, R, X, T) ==
  IF Given(T) THEN AfterExclude(D, R, X) \cap AncStar(D, T) ELSE AfterExclude(D, R, X)

\* caller errors the documentation defines: ValueError, nothing runs
BadRoots(D, R) == Given(R) /\ \E r \in R : ~IsRoot(D, r)
TargetExcluded(D, R, X, T) == Given(T) /\ Given(X) /\ T \cap DescStar(D, X) \cap AfterRoots(D, R) # {}
\* a target outside the part selected by R: the statement gives the closure, the code refuses;
\* both are accepted (DESIGN I4b)
TargetCutByRoots(D, R, T) == Given(T) /\ ~(T \subseteq AfterRoots(D, R))
MustRaise(D, R, X, T) == BadRoots(D, R) \/ (TargetExcluded(D, R, X, T) /\ ~TargetCutByRoots(D, R, T))
MayRaise(D, R, X, T) == MustRaise(D, R, X, T) \/ TargetCutByRoots(D, R, T)

(***************************************************************************)
(* C13: debug rules.  With the flag off no debug node takes part.  With it *)
(* on, debug nodes may be pulled in; the property only demands that a      *)
(* pulled node has all its inputs (selected or precomputed).               *)
(***************************************************************************)
NonDebugPart(D, S) == S \ DebugNodes(D)
PulledOK(D, S, pre, named) ==
  \A d \in (S \cap DebugNodes(D)) \ named : D.deps[d] \subseteq S \cup pre

\* the set the code's fixed point computes (digraph.py:243-275), as information for drift
RECURSIVE Pull(_, _)
Pull(D, L) == LET add == {d \in DebugNodes(D) \ L : D.deps[d] # {} /\ D.deps[d] \cap L # {} /\ D.deps[d] \subseteq L}
              IN IF add = {} THEN L ELSE Pull(D, L \cup add)
Leaves(D, S) == {n \in S : Succs(D, {n}) \cap S = {}}
\* C03 / C13, flag on: the debug nodes a sub-graph run MUST take along - the documented fixed point "a debug node all of
\* whose inputs are leaves of the selection (or debug nodes taken along already) can run, hence runs".  A lower bound:
\* an implementation may take more (PulledOK is the upper bound), never fewer.  Debug nodes with a constant argument are
\* left out of the bound (their argument holder is a predecessor that is never a leaf).
RECURSIVE PullLow(_, _)
PullLow(D, L) == LET add == {d \in DebugNodes(D) \ L : ~D.const[d] /\ D.deps[d] # {} /\ D.deps[d] \subseteq L}
                 IN IF add = {} THEN L ELSE PullLow(D, L \cup add)
MustPull(D, S) == PullLow(D, Leaves(D, S)) \ S

(***************************************************************************)
(* What executes: the selected nodes that are not precomputed.             *)
(***************************************************************************)
Executes(S, pre) == S \ pre

\* setup(R, X, T): T defaults to all setup nodes; only setup nodes run
SetupClosure(D, R, X, T) ==
  Closure(D, R, X, IF Given(T) THEN T ELSE SetupNodes(D)) \cap SetupNodes(D)

(***************************************************************************)
(* Lemmas about the algebra, checked by TLC on every enumerated case.      *)
(***************************************************************************)
LemmaClosed(D, R, X, T) ==
  LET S == Closure(D, R, X, T) IN
  /\ Given(T) => \A n \in S : D.deps[n] \cap AfterExclude(D, R, X) \subseteq S   \* ancestor-closed inside the remaining part
  /\ Given(X) => S \cap DescStar(D, X) = {}
  /\ Given(R) => S \subseteq DescStar(D, R)
  /\ (~MayRaise(D, R, X, T) /\ Given(T)) => T \subseteq S
LemmaSameReading(D, R, X, T) ==      \* ancestors inside the remaining part = ancestors in the whole DAG
  (Given(T) /\ ~MayRaise(D, R, X, T)) =>
     LET Rem == AfterExclude(D, R, X)
         RECURSIVE AncIn(_)
         AncIn(S) == LET N1 == S \cup (UNION {D.deps[m] : m \in S} \cap Rem) IN IF N1 = S THEN S ELSE AncIn(N1)
     IN AncIn(T) = Closure(D, R, X, T)
=============================================================================
