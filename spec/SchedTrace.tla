----------------------------- MODULE SchedTrace -----------------------------
(***************************************************************************)
(* Trace validation, code -> specification, for engine E1.                 *)
(*                                                                         *)
(* Input (IOEnv.TRACE_FILE): a JSON document {"traces": [ T, ... ]}, each  *)
(* T one EXECUTION of the real scheduler recorded through the hooks:       *)
(*   tid, n, mc, deps, sel, off, none, cp, seq, res, argsrc, ev            *)
(* ev is a sequence of uniform records [e, n, k, m, s, b, r].              *)
(*                                                                         *)
(* Every event is one step; the observable state of SchedObs is updated    *)
(* and every clause of the properties is evaluated in that state.  The     *)
(* specification is total: an event is never refused, the violated clause  *)
(* names are accumulated in `viol` and printed once per trace, so a        *)
(* verdict always names the failing clause and the index of the event.     *)
(* All traces of a batch are validated in one TLC run (one initial state   *)
(* per trace).                                                             *)
(***************************************************************************)
EXTENDS SchedObs, TLC, Json, IOUtils

Data == JsonDeserialize(IOEnv.TRACE_FILE)
Traces == Data.traces
NT == Len(Traces)

Norm(T) == [n |-> T.n, mc |-> T.mc, sel |-> Range(T.sel), off |-> Range(T.off),
            none |-> Range(T.none),
            deps |-> [k \in 1..T.n |-> Range(T.deps[k])],
            cp |-> T.cp, seq |-> T.seq, res |-> T.res, argsrc |-> T.argsrc]
Cfgs == [t \in 1..NT |-> Norm(Traces[t])]

VARIABLES tid, i, ph, deliv, blk, awaited, insec, secBoth, failObs, ended, inl, viol, cnt, late
vars == <<tid, i, ph, deliv, blk, awaited, insec, secBoth, failObs, ended, inl, viol, cnt, late>>

Cnt0 == [mcfull |-> FALSE, seqdefer |-> FALSE, strict |-> FALSE, tie |-> FALSE,
         failinflight |-> FALSE, both |-> FALSE, waits |-> 0, skips |-> 0, disp |-> 0,
         bg |-> FALSE, inlinebg |-> FALSE, depdisp |-> FALSE, returned |-> FALSE,
         seqdisp |-> FALSE, blockready |-> FALSE, failed |-> FALSE, async |-> FALSE]

Init ==
  /\ tid \in 1..NT
  /\ i = 1
  /\ ph = [k \in 1..Traces[tid].n |-> "idle"]
  /\ deliv = {} /\ blk = FALSE /\ awaited = {} /\ insec = FALSE /\ secBoth = FALSE
  /\ failObs = FALSE /\ ended = FALSE /\ inl = {} /\ viol = {} /\ cnt = Cnt0 /\ late = {}

Clauses(S) == {p[2] : p \in {q \in S : q[1]}}
Mark(names, tag) == viol \cup {[i |-> i, c |-> nm, t |-> tag] : nm \in names}

ExpRecv(c, n) ==
  [j \in 1..Len(c.argsrc[n]) |->
     LET d == c.argsrc[n][j] IN
     IF d \in c.none \/ (d \in c.sel /\ ph[d] = "skip") THEN 0 ELSE d]

KindInFlight(c, kind) == \E m \in InFlightD(c, ph, deliv) : c.res[m] = kind

Step ==
  LET T == Traces[tid]
      c == Cfgs[tid]
      e == T.ev[i]
      n == e.n
      known == n \in 1..c.n
  IN
  /\ i <= Len(T.ev)
  /\ i' = i + 1 /\ tid' = tid
  /\ CASE e.e = "dispatch" /\ known ->
            LET ph2 == [ph EXCEPT ![n] = "disp"]
                rd == ReadyD(c, ph, deliv) \ {n}
                bad == Clauses({
                  <<ph[n] # "idle", "C03.twice">>,
                  <<n \notin c.sel, "C03.extra">>,
                  <<n \in c.off, "C03.extra">>,
                  <<n \in c.off, "C10.ran-inactive">>,
                  <<~OrderOK(c, ph, n), "C02.order">>,
                  <<Pooled(c, n) /\ ~BoundOK(c, ph2), "C04.bound">>,
                  <<~SeqAlone(c, ph2), "C05.dispatch">>,
                  <<~MaxPriority(c, ph, deliv, n), "C06.max">>,
                  <<failObs, "C14.after">>,
                  <<~NoFailedAncestor(c, ph, n), "C14.downstream">>,
                  <<ended, "WF.after-end">>})
            IN /\ ph' = ph2 /\ insec' = FALSE
               /\ viol' = Mark(bad, "")
               /\ cnt' = [cnt EXCEPT !.disp = @ + 1,
                            !.depdisp = @ \/ Dep(c, n) # {},
                            !.seqdisp = @ \/ c.seq[n],
                            !.async = @ \/ c.res[n] = "async",
                            !.mcfull = @ \/ Cardinality(PooledInFlightL(c, ph2)) = c.mc,
                            !.strict = @ \/ \E m \in rd : c.cp[m] < c.cp[n],
                            !.tie = @ \/ \E m \in rd : c.cp[m] = c.cp[n]]
               /\ UNCHANGED <<late, deliv, blk, awaited, secBoth, failObs, ended, inl>>
       [] e.e = "enter" /\ known ->
            LET ph2 == [ph EXCEPT ![n] = "run"]
                \* a node that sat in the pool's queue (seen at a stall) and is entered after the failure was observed
                \* (a node entering a moment after the failure it was dispatched before is a benign race and not meant)
                bad == (IF n \in late /\ failObs THEN {"C14.started-after-failure"} ELSE {}) \cup IF ended THEN {} ELSE Clauses({
                  <<ph[n] # "disp", "C03.twice">>,
                  <<~OrderOK(c, ph, n), "C02.order">>,
                  <<e.b # (c.res[n] = "main"), "C04.thread">>,
                  <<~MainAlone(c, ph2), "C04.main">>,
                  <<~BoundOK(c, ph2), "C04.bound">>,
                  <<~NoOverlap(c, ph2), "C05.overlap">>})
            IN /\ ph' = ph2
               /\ inl' = IF e.k = "sched" THEN inl \cup {n} ELSE inl
               /\ viol' = Mark(bad, "")
               /\ UNCHANGED <<late, deliv, blk, awaited, insec, secBoth, failObs, ended, cnt>>
       [] e.e = "exit" /\ known ->
            LET bad == IF ended THEN {} ELSE Clauses({
                  <<ph[n] # "run", "WF.exit">>,
                  <<(e.b \/ Len(e.r) > 0) /\ e.r # ExpRecv(c, n), "C02.values">>})
                inline == n \in inl
            IN /\ ph' = [ph EXCEPT ![n] = IF e.b THEN "ok" ELSE "fail"]
               /\ deliv' = IF inline /\ e.b /\ ~ended THEN deliv \cup {n} ELSE deliv
               /\ failObs' = (failObs \/ (inline /\ ~e.b))
               /\ viol' = Mark(bad, "")
               /\ cnt' = [cnt EXCEPT
                            !.failed = @ \/ ~e.b,
                            !.failinflight = @ \/ (~e.b /\ InFlightL(c, ph) \ {n} # {}),
                            !.bg = @ \/ (blk /\ ~ended /\ n \notin awaited),
                            !.inlinebg = @ \/ (~inline /\ \E m \in inl : ph[m] = "run")]
               /\ UNCHANGED <<late, blk, awaited, insec, secBoth, ended, inl>>
       [] e.e = "skip" /\ known ->
            LET bad == Clauses({
                  <<ph[n] # "idle", "C03.twice">>,
                  <<n \notin c.off, "C10.skipped-active">>,
                  <<~OrderOK(c, ph, n), "C10.early">>,
                  <<ended, "WF.after-end">>})
            IN /\ ph' = [ph EXCEPT ![n] = "skip"]
               /\ deliv' = deliv \cup {n} /\ insec' = FALSE
               /\ viol' = Mark(bad, "")
               /\ cnt' = [cnt EXCEPT !.skips = @ + 1]
               /\ UNCHANGED <<late, blk, awaited, secBoth, failObs, ended, inl>>
       [] e.e = "seq_defer" ->
            /\ cnt' = [cnt EXCEPT !.seqdefer = TRUE]
            /\ UNCHANGED <<late, ph, deliv, blk, awaited, insec, secBoth, failObs, ended, inl, viol>>
       [] e.e = "wait_begin" ->
            LET both == IF insec THEN secBoth
                        ELSE KindInFlight(c, "thread") /\ KindInFlight(c, "async")
                aw == Range(e.s) \cap 1..c.n
                bad == Clauses({
                  <<~JustifiedD(c, ph, deliv), "C08.begin">>,
                  \* an async-thread node must be awaited through the event loop: a blocking wait on it
                  \* keeps the loop from serving other coroutines while it runs (C17)
                  <<e.k = "thread" /\ \E m \in aw : c.res[m] = "async", "C17.blocking-wait-on-async-node">>,
                  <<blk, "WF.nested-wait">>})
            IN /\ blk' = TRUE /\ awaited' = Range(e.s) /\ insec' = TRUE /\ secBoth' = both
               /\ viol' = Mark(bad, IF both THEN "both" ELSE "single")
               /\ cnt' = [cnt EXCEPT !.waits = @ + 1, !.both = @ \/ both,
                            !.blockready = @ \/ ReadyD(c, ph, deliv) # {}]
               /\ UNCHANGED <<late, ph, deliv, failObs, ended, inl>>
       [] e.e = "still_blocked" ->
            LET bad == Clauses({
                  <<~JustifiedL(c, ph), "C08.still">>,
                  <<~blk, "WF.still">>})
            IN /\ viol' = Mark(bad, IF secBoth THEN "both" ELSE "single")
               /\ UNCHANGED <<late, ph, deliv, blk, awaited, insec, secBoth, failObs, ended, inl, cnt>>
       [] e.e = "wait_end" ->
            LET S == Range(e.s) \cap 1..c.n
                bad == Clauses({
                  \* a wait reports a node as finished whose function has not returned: the scheduler will treat its
                  \* dependents as ready and its result as available (C02)
                  <<\E m \in S : ph[m] \in {"disp", "run"}, "C02.premature-completion">>,
                  <<\E m \in S : ph[m] \in {"idle", "skip"}, "WF.wait_end">>,
                  <<~blk, "WF.wait_end-unblocked">>})
            IN /\ blk' = FALSE /\ awaited' = {}
               /\ deliv' = deliv \cup {m \in S : ph[m] = "ok"}
               /\ failObs' = (failObs \/ \E m \in S : ph[m] = "fail")
               /\ viol' = Mark(bad, "")
               /\ UNCHANGED <<late, ph, insec, secBoth, ended, inl, cnt>>
       [] e.e = "return" ->
            LET bad == Clauses({
                  <<~Complete(c, ph), "C03.missing">>,
                  <<\E m \in c.sel \ c.off : ph[m] = "idle", "C09.incomplete">>,
                  <<\E m \in 1..c.n : ph[m] = "fail", "C14.swallowed">>,
                  <<InFlightL(c, ph) # {}, "C09.early-return">>})
            IN /\ viol' = Mark(bad, "")
               /\ cnt' = [cnt EXCEPT !.returned = TRUE]
               /\ UNCHANGED <<late, ph, deliv, blk, awaited, insec, secBoth, failObs, ended, inl>>
       [] e.e = "raise" ->
            LET bad == Clauses({
                  <<e.k \in {"hang", "harness"}, "C09.hang">>,
                  <<e.k = "internal", "C14.internal">>,
                  <<e.k = "bare", "C14.blame">>,
                  <<e.k = "wrapped" /\ ~(e.b /\ e.r = <<1>>), "C14.blame">>,
                  <<e.k \in {"wrapped", "bare"} /\ ~(n \in 1..c.n /\ ph[n] = "fail"), "C14.blame">>,
                  <<e.k \in {"wrapped", "bare"} /\ ~failObs, "C14.unobserved">>})
            IN /\ viol' = Mark(bad, "")
               /\ UNCHANGED <<late, ph, deliv, blk, awaited, insec, secBoth, failObs, ended, inl, cnt>>
       [] e.e = "hang" ->
            /\ viol' = Mark({"C09.hang"}, e.k)
            /\ UNCHANGED <<late, ph, deliv, blk, awaited, insec, secBoth, failObs, ended, inl, cnt>>
       [] e.e = "stall" ->
            \* nothing happened for the stall timeout.  When a node handed to the pool has not been entered although fewer
            \* than max_concurrency pooled nodes are running, the pool does not give the scheduler the workers it counts on:
            \* the slot the scheduler believes it filled stays idle (C08), and nodes in flight that wait for one another
            \* would never finish (C09).  Any other stall is a problem of the harness (ill-formed trace).
            \* (a thread node is submitted to the pool at dispatch; an async-thread node reaches the pool when the event loop
            \* runs, which it does while the scheduler awaits that node)
            LET waiting == {m \in 1..c.n : ph[m] = "disp" /\ (c.res[m] = "thread" \/ (c.res[m] = "async" /\ blk /\ e.k = "async" /\ m \in awaited))}
                running == {m \in 1..c.n : ph[m] = "run" /\ Pooled(c, m)}
                starved == waiting # {} /\ Cardinality(running) < c.mc /\ ~ended
            IN /\ viol' = Mark(IF starved THEN {"C08.dispatched-node-not-started", "C09.dispatched-node-not-started"} ELSE {"WF.stall"}, e.k)
               /\ late' = IF starved THEN late \cup waiting ELSE late
               /\ UNCHANGED <<ph, deliv, blk, awaited, insec, secBoth, failObs, ended, inl, cnt>>
       [] e.e = "op_end" ->
            /\ ended' = TRUE
            /\ UNCHANGED <<late, ph, deliv, blk, awaited, insec, secBoth, failObs, inl, viol, cnt>>
       [] e.e \in {"op", "exec_begin", "exec_end", "pool_exit"} ->
            UNCHANGED <<late, ph, deliv, blk, awaited, insec, secBoth, failObs, ended, inl, viol, cnt>>
       [] OTHER ->
            \* a node event for something that is not a call site of the configuration (an argument holder executed,
            \* a foreign node): C03.extra; any other unknown event is an ill-formed trace
            /\ viol' = Mark({IF e.e \in {"dispatch", "enter", "exit", "skip"} /\ ~known THEN "C03.extra" ELSE "WF.unknown-event"}, e.e)
            /\ UNCHANGED <<late, ph, deliv, blk, awaited, insec, secBoth, failObs, ended, inl, cnt>>

Spec == Init /\ [][Step]_vars

Done == i = Len(Traces[tid].ev) + 1
Verdict == Done => PrintT("VERDICT " \o ToJson([tid |-> Traces[tid].tid, viol |-> viol, cnt |-> cnt]))
=============================================================================
