----------------------------- MODULE LifecycleMC -----------------------------
(***************************************************************************)
(* Model level of engine E4: an implementation-shaped machine of what a    *)
(* DAG instance (and its deep copies), executor objects and cache files    *)
(* keep between operations, explored by TLC over ALL histories up to a     *)
(* length bound on one template DAG.                                       *)
(*   dag.results            res[i]   setup ids stored on instance i        *)
(*   run_subgraph 660-666   setup results are copied back after a          *)
(*                          successful execution, only if not yet stored   *)
(*   helpers 258            ids present in the results are pruned          *)
(*   DAGExecution           ex[x]: selection, started (set in _pre_call),  *)
(*                          from_cache file; a started executor refuses    *)
(*   _cache_results         cache[f] = ids written by a caching run        *)
(* cnt[i][k] counts the executions of setup node k by successful           *)
(* operations on instance i (a copy inherits the history of its original). *)
(***************************************************************************)
EXTENDS Selection, TLC
CONSTANTS MaxOps, NI, NX, NF

\* the template: s1 -> s2 (setup), a(s2), b(s1), c(a), d(b)
D == [n |-> 6, deps |-> <<{}, {1}, {2}, {1}, {3}, {4}>>,
      kind |-> <<"setup", "setup", "reg", "reg", "reg", "reg">>, const |-> [k \in 1..6 |-> FALSE]]
All == Nodes(D)
Setups == SetupNodes(D)
Sels == {All, AncStar(D, {5}), AncStar(D, {6}), AncStar(D, {3}), AncStar(D, {2})}   \* whole DAG and some target closures

VARIABLES res, cnt, ex, cache, ops, lastRun
vars == <<res, cnt, ex, cache, ops, lastRun>>
NoEx == [inst |-> 0, S |-> {}, started |-> FALSE, fc |-> 0, f |-> 0, gen |-> 0]     \* gen: which object lives in the slot

Init == /\ res = [i \in 1..NI |-> IF i = 1 THEN {} ELSE {0}]      \* {0}: the instance does not exist yet
        /\ cnt = [i \in 1..NI |-> [k \in All |-> 0]]
        /\ ex = [x \in 1..NX |-> NoEx]
        /\ cache = [f \in 1..NF |-> {0}]                           \* {0}: no file
        /\ ops = 0 /\ lastRun = {}
Exists(i) == res[i] # {0}
Tick == ops < MaxOps /\ ops' = ops + 1

\* one execution of selection S on instance i, starting from `have` (stored setup results + cached ids)
Execute(i, S, have, ok) ==
  LET runs == S \ have IN
  /\ lastRun' = runs
  /\ IF ok THEN /\ res' = [res EXCEPT ![i] = @ \cup (Setups \cap S \cap (runs \cup have))]
                /\ cnt' = [cnt EXCEPT ![i] = [k \in All |-> IF k \in runs \cap Setups THEN @[k] + 1 ELSE @[k]]]
          ELSE UNCHANGED <<res, cnt>>

Call(i, ok) == Tick /\ Exists(i) /\ Execute(i, All, res[i], ok) /\ UNCHANGED <<ex, cache>>
SetupOp(i, T) == Tick /\ Exists(i) /\ Execute(i, SetupClosure(D, None, None, T), res[i], TRUE) /\ UNCHANGED <<ex, cache>>
Copy(i, j) == Tick /\ Exists(i) /\ ~Exists(j) /\ res' = [res EXCEPT ![j] = res[i]] /\ cnt' = [cnt EXCEPT ![j] = cnt[i]]
              /\ lastRun' = {} /\ UNCHANGED <<ex, cache>>
ExNew(x, i, S, f, fc) == /\ Tick /\ Exists(i) /\ (IF fc = 0 THEN TRUE ELSE cache[fc] # {0})
                         /\ ex' = [ex EXCEPT ![x] = [inst |-> i, S |-> S, started |-> FALSE, fc |-> fc, f |-> f, gen |-> ex[x].gen + 1]]
                         /\ lastRun' = {} /\ UNCHANGED <<res, cnt, cache>>
ExRun(x, ok) ==
  /\ Tick /\ ex[x].inst # 0
  /\ IF ex[x].started
     THEN lastRun' = {} /\ UNCHANGED <<res, cnt, ex, cache>>          \* refused: TawaziUsageError
     ELSE LET i == ex[x].inst
              cached == IF ex[x].fc = 0 THEN {} ELSE cache[ex[x].fc]
          IN /\ Execute(i, ex[x].S, res[i] \cup cached, ok)
             /\ ex' = [ex EXCEPT ![x].started = TRUE]
             /\ cache' = IF ok /\ ex[x].f # 0 THEN [cache EXCEPT ![ex[x].f] = ex[x].S \cup res[i] \cup cached] ELSE cache

Next == \/ \E i \in 1..NI, ok \in BOOLEAN : Call(i, ok)
        \/ \E i \in 1..NI, T \in {None, {1}, {2}} : SetupOp(i, T)
        \/ \E i, j \in 1..NI : Copy(i, j)
        \/ \E x \in 1..NX, i \in 1..NI, S \in Sels, f \in 0..NF, fc \in 0..NF : ExNew(x, i, S, f, fc)
        \/ \E x \in 1..NX, ok \in BOOLEAN : ExRun(x, ok)
Spec == Init /\ [][Next]_vars

(* C11: a setup node is executed at most once per instance (successful operations) *)
SetupOnce == \A i \in 1..NI : \A k \in Setups : cnt[i][k] <= 1
(* C11: what is stored is exactly what was executed (or inherited / taken from a cache file) *)
StoredIsSetup == \A i \in 1..NI : Exists(i) => res[i] \subseteq Setups
(* C15 / C18: no execution runs a node whose result it already holds *)
NoRecompute == \A i \in 1..NI : Exists(i) => lastRun \cap res[i] \subseteq lastRun \cap Setups
(* C15: an executor object executes at most once: once started it stays started (only a NEW executor is unstarted) *)
StartedStays == [][\A x \in 1..NX : (ex[x].started /\ ex'[x].gen = ex[x].gen) => ex'[x].started]_vars
=============================================================================
