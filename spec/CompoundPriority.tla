-------------------------- MODULE CompoundPriority --------------------------
(***************************************************************************)
(* Compound priority (properties C06 / C07): the documented function of    *)
(* the DAG, and the execution order it induces when max_concurrency = 1.   *)
(*   tawazi/_dag/digraph.py : assign_compound_priority                     *)
(*   tawazi/_dag/helpers.py : max(runnable, key=compound_priority)         *)
(* A DAG is deps [1..n -> SUBSET 1..n] with deps[k] \subseteq 1..k-1 and a *)
(* priority vector prio [1..n -> Int].                                     *)
(***************************************************************************)
EXTENDS Naturals, Integers, FiniteSets, Sequences

RECURSIVE DescOf(_, _, _)
DescOf(n, deps, k) ==          \* the SET of distinct descendants of k
  LET S == {m \in 1..n : k \in deps[m]} IN S \cup UNION {DescOf(n, deps, m) : m \in S}

RECURSIVE SumOver(_, _)
SumOver(f, S) == IF S = {} THEN 0 ELSE LET x == CHOOSE x \in S : TRUE IN f[x] + SumOver(f, S \ {x})

\* own priority plus the priority of every distinct descendant, each counted once
Doc(n, deps, prio) == [k \in 1..n |-> prio[k] + SumOver(prio, DescOf(n, deps, k))]

\* adding edges that are implied by transitivity does not change the function (path multiplicity
\* is irrelevant): Doc on the transitive closure equals Doc
RECURSIVE AncOf(_, _)
AncOf(deps, k) == deps[k] \cup UNION {AncOf(deps, d) : d \in deps[k]}
Closed(n, deps) == [k \in 1..n |-> AncOf(deps, k)]
LemmaPathIndependent(n, deps, prio) == Doc(n, Closed(n, deps), prio) = Doc(n, deps, prio)
\* with non-negative priorities a node never has a smaller compound priority than a descendant
LemmaMonotone(n, deps, prio) ==
  (\A k \in 1..n : prio[k] >= 0) =>
     \A k \in 1..n : \A m \in DescOf(n, deps, k) : Doc(n, deps, prio)[m] <= Doc(n, deps, prio)[k]

(***************************************************************************)
(* max_concurrency = 1: one node at a time; the next node is a ready node  *)
(* of maximal compound priority.  `ord` is an observed execution order.    *)
(***************************************************************************)
ReadyAfter(n, deps, done, sel) == {k \in sel \ done : deps[k] \cap sel \subseteq done}
ValidOrder(n, deps, cp, sel, ord) ==
  /\ Len(ord) = Cardinality(sel) /\ {ord[i] : i \in 1..Len(ord)} = sel
  /\ \A i \in 1..Len(ord) :
       LET done == {ord[j] : j \in 1..(i - 1)}
           rdy == ReadyAfter(n, deps, done, sel)
       IN ord[i] \in rdy /\ \A m \in rdy : cp[m] <= cp[ord[i]]
\* no two nodes that can be ready together have equal compound priority: then the order is unique
NoTies(n, deps, cp, sel) == \A a, b \in sel : (a # b /\ cp[a] = cp[b]) => (a \in AncOf(deps, b) \/ b \in AncOf(deps, a))
=============================================================================
