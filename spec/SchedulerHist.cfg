CONSTANTS
 N = 4
 MCS = {1}
 RES = {"thread", "async", "main"}
 PRS = {0}
 SEQS = {TRUE, FALSE}
 FAILS = 0
 INACT = 0
 PREMAX = 0
SPECIFICATION SpecH
INVARIANT PrintTerm
CHECK_DEADLOCK FALSE
