------------------------------ MODULE CompCheck ------------------------------
(* Code -> specification for C19. Input (IOEnv.CASE_FILE): {"progs": [...], "obs": [{p, ins, outs, single, ell, vals,
   raised, stage, errclass, val, exec, orig_same, pre, nested, nraised, noccupied, nval, nexec}]} ; one state per observation.
   nested: the composed DAG was also called inside an outer DAG's describing function (C20). *)
EXTENDS Compose, TLC, Json, IOUtils

Data == JsonDeserialize(IOEnv.CASE_FILE)
Progs == Data.progs
Obs == Data.obs
NO == Len(Obs)
VARIABLE o
Init == o \in 1..NO
Next == UNCHANGED o
Spec == Init /\ [][Next]_o
Clauses(S) == {p[2] : p \in {q \in S : q[1]}}
Count(reg, cond) == IF cond THEN TLCSet(reg, TLCGet(reg) + 1) ELSE TRUE
RangeOf(s) == {s[j] : j \in 1..Len(s)}

SetupSites(P) == {<<j>> : j \in {k \in 1..Len(P.sites) : P.sites[k].setup}}
SameFunction(a, b) == a.kind = b.kind /\ a.fn = b.fn /\ a.setup = b.setup
ReusedReversed(P, ins) == \E a, b \in 1..Len(ins) : a < b /\ ins[a] > ins[b] /\ SameFunction(P.sites[ins[a]], P.sites[ins[b]])

Must(P, W) == InputOnInput(P, W.ins) \/ Insufficient(P, W.ins, W.outs, W.ell) \/ Duplicate(W.ins)
May(P, W) == Must(P, W) \/ Overlap(W.ins, W.outs)

Bad(W) ==
  LET P == Progs[W.p]
      must == Must(P, W)
      may == May(P, W)
      exp == ComposeEval(P, W.ins, W.outs, W.single, W.ell, W.vals)
      isVE == W.raised /\ W.errclass = "ValueError"
      inEq == ~may /\ ~exp.err
  IN Clauses({
       <<must /\ ~isVE, "C19.must-raise">>,
       <<~may /\ isVE, "C19.spurious-error">>,
       <<~may /\ ~exp.err /\ W.raised /\ ~isVE, "C19.internal">>,
       <<inEq /\ ~W.raised /\ W.val # exp.val, "C19.value">>,
       <<Overlap(W.ins, W.outs) /\ ~must /\ ~exp.err /\ ~W.raised /\ W.val # exp.val, "C19.value">>,
       \* setup results the original had computed when it was composed (W.pre) are taken from it, not computed again
       <<inEq /\ ~W.raised /\ RangeOf(W.exec) # exp.exec \ RangeOf(W.pre), "C19.exec">>,
       <<~W.orig_same, "C19.original-changed">>,
       \* C15: what a call of the original returns never depends on the DAGs composed from it
       <<~W.orig_same, "C15.changed-by-compose">>,
       \* C20: the composed DAG called inside another DAG's describing function is its body written in place
       \* (known finding: two call sites of one re-used function given as inputs, the later call site first - the
       \* stub of the earlier call site is renumbered and the outer DAG fails to build with a KeyError, W.noccupied)
       <<inEq /\ W.nested /\ (W.nraised \/ W.nval # exp.val) /\ ~(W.noccupied /\ ReusedReversed(P, W.ins)), "C20.composed-nested-value">>,
       <<inEq /\ W.nested /\ W.nraised /\ W.noccupied /\ ReusedReversed(P, W.ins), "C20.composed-nested-occupied">>,
       \* the direct call made just before has stored the setup results in the composed DAG
       <<inEq /\ W.nested /\ ~W.nraised /\ RangeOf(W.nexec) # (exp.exec \ RangeOf(W.pre)) \ SetupSites(P), "C20.composed-nested-exec">>})

Check ==
  LET W == Obs[o]
      P == Progs[W.p]
      b == Bad(W)
  IN /\ Count(1, TRUE)
     /\ Count(2, ~May(P, W) /\ ~ComposeEval(P, W.ins, W.outs, W.single, W.ell, W.vals).err)
     /\ Count(3, Must(P, W))
     /\ Count(5, W.nested /\ ~May(P, W) /\ ~ComposeEval(P, W.ins, W.outs, W.single, W.ell, W.vals).err)
     /\ Count(4, \E j \in Needed(P, W.ins, W.outs) \ SeqRange(W.ins) : P.sites[j].active.c = "site" /\ P.sites[j].active.n \in SeqRange(W.ins))
     /\ (b = {} \/ PrintT("MISMATCH " \o ToJson([o |-> o, c |-> b,
            expval |-> ComposeEval(P, W.ins, W.outs, W.single, W.ell, W.vals).val,
            expexec |-> ComposeEval(P, W.ins, W.outs, W.single, W.ell, W.vals).exec])))
ASSUME \A reg \in 1..5 : TLCSet(reg, 0)
Counts == PrintT("COUNTS " \o ToJson([rows |-> TLCGet(1), ineq |-> TLCGet(2), mustraise |-> TLCGet(3), flaginput |-> TLCGet(4), nested |-> TLCGet(5)]))
=============================================================================
