"""Engine E2: build the real @dag for a program, run it, and evaluate the plain-Python reference."""
import asyncio
import operator
import os
import sys

HERE = os.path.dirname(os.path.abspath(__file__))
if HERE not in sys.path:
    sys.path.insert(0, HERE)
os.environ["TAWAZI_VERIF"] = "1"
REPO = os.environ.get("VERIF_REPO", "/repo")
if REPO not in sys.path:
    sys.path.insert(0, REPO)

from prog_gen import decode, encode  # noqa: E402


# ---------------------------------------------------------------- the plain callables
def mix(*a, **kw):
    return tuple(a) + tuple(kw[k] for k in sorted(kw))


def pair(c, x):
    return (x, (c, x))


def mkdict(c, x):
    return {"a": x, "b": (c, x)}


def mklist(c, x, y):
    return [x, y, c]


def ident(x):
    return x


def label(c):
    return "n" + str(c)


def mkgrid(c, x, y):
    from prog_gen import Grid

    return Grid([[c, x], [x, y], [y, c]])


PLAIN = {"mix": mix, "pair": pair, "mkdict": mkdict, "mklist": mklist, "ident": ident, "label": label, "mkgrid": mkgrid}
OPS = {"add": operator.add, "sub": operator.sub, "mul": operator.mul, "lt": operator.lt, "ge": operator.ge,
       "eq": operator.eq, "ne": operator.ne, "neg": operator.neg, "abs": operator.abs,
       "floordiv": operator.floordiv, "mod": operator.mod, "bor": operator.or_}
AUG = {"add": operator.iadd, "sub": operator.isub, "mul": operator.imul, "floordiv": operator.ifloordiv, "mod": operator.imod, "bor": operator.ior}
LOGIC = {"and": lambda a, b: a and b, "or": lambda a, b: a or b, "not": lambda a: not a}


PRE_HOOK = None      # called at the entry of every plain callable (used to force overlap of concurrent calls)


class PlainRaises(Exception):
    pass


def index(v, path):
    for key in path:
        k = key["k"]
        v = v[key["i"]] if k == "i" else v[key["x"]] if k == "s" else v[list(key["q"])] if k == "li" else v[tuple(key["q"])]
    return v


# ---------------------------------------------------------------- plain-Python reference (second oracle)
def setup_paths(P, pre=()):
    """Paths of all setup call sites, also those of nested DAGs (a nested setup node is a setup node of the outer DAG)."""
    out = []
    for j, s in enumerate(P["sites"], 1):
        if s.get("setup"):
            out.append(list(pre + (j,)))
        elif s["kind"] == "sub":
            out += setup_paths(P["subs"][s["sub"] - 1], pre + (j,))
    return out


def plain_eval(P, args, pre=(), off=False, executed=None, mode="letter", dbg=True):
    """Evaluate the body sequentially with plain callables. Returns the value; fills `executed`.

    off: the body of a deactivated nested DAG - only its setup call sites execute, all its outputs are None
    (mode "keep": except a setup result it returns directly; mode "index": an indexed part of an inner result is obtained by
    indexing the None of the deactivated node - the variant readings of spec/Dataflow.tla)."""
    if executed is None:
        executed = {}
    env = []

    def res(r):
        if r["c"] == "const":
            return decode(r["v"])
        if r["c"] == "param":
            return index(args[r["n"] - 1], r["path"])
        if r["c"] == "site":
            return index(env[r["n"] - 1], r["path"])
        return None
    for j, s in enumerate(P["sites"], 1):
        pos = [res(r) for r in s["args"]]
        kws = {k["name"]: res(k["ref"]) for k in s["kw"]}
        act = True if s.get("setup") else (not off) and (s["active"]["c"] == "none" or bool(res(s["active"])))
        if s.get("debug") and not dbg:
            act = False         # RUN_DEBUG_NODES off: a debug call site does not run
        if s["kind"] == "sub":
            Q = P["subs"][s["sub"] - 1]
            if len(pos) > len(Q["params"]):
                raise TypeError("too many arguments")
            bound = list(pos)
            for p in range(len(pos), len(Q["params"])):
                if not Q["params"][p]["has"]:
                    raise TypeError("missing argument")
                bound.append(decode(Q["params"][p]["v"]))
            v = plain_eval(Q, bound, pre + (j,), off or not act, executed, mode, dbg)
        else:
            if act:
                executed[pre + (j,)] = executed.get(pre + (j,), 0) + 1
                if s["kind"] == "call":
                    v = PLAIN[s["fn"]](*pos, **kws)
                elif s["kind"] == "op":
                    v = OPS[s["fn"]](*pos)
                else:
                    v = LOGIC[s["fn"]](*pos)
                if s["unpack"]:
                    if not isinstance(v, (tuple, list)) or len(v) != s["unpack"]:
                        raise TypeError("cannot unpack")
            else:
                v = None
        env.append(v)

    def out(r):
        if not off:
            return res(r)
        if r["c"] == "site" and P["sites"][r["n"] - 1]["kind"] == "sub":
            return res(r)
        if mode == "keep" and r["c"] == "site" and P["sites"][r["n"] - 1].get("setup"):
            return res(r)
        if mode == "index" and r["c"] == "site" and not P["sites"][r["n"] - 1].get("setup"):
            return res(r)
        return None
    outs = [out(r) for r in P["ret"]["refs"]]
    shape = P["ret"]["shape"]
    return {"single": lambda: outs[0], "tuple": lambda: tuple(outs), "list": lambda: list(outs),
            "dict": lambda: dict(zip(P["ret"]["keys"], outs)), "none": lambda: None}[shape]()


def plain_call(P, given, dbg=True):
    if len(given) > len(P["params"]):
        return {"argerr": True}
    bound = list(given)
    for p in range(len(given), len(P["params"])):
        if not P["params"][p]["has"]:
            return {"argerr": True}
        bound.append(decode(P["params"][p]["v"]))
    executed = {}
    try:
        v = plain_eval(P, bound, (), False, executed, dbg=dbg)
    except Exception as e:  # noqa: BLE001
        return {"err": True, "exc": repr(e)[:100]}
    exk = {}
    try:
        vk = plain_eval(P, bound, (), False, exk, mode="keep", dbg=dbg)
        err_k = False
    except Exception:  # noqa: BLE001
        vk, err_k = None, True
    try:
        plain_eval(P, bound, (), False, {}, mode="index", dbg=dbg)
        err_i = False
    except Exception:  # noqa: BLE001
        err_i = True
    return {"val": encode(v), "valK": encode(vk), "execK": sorted(list(k) for k in exk), "errK": err_k, "errI": err_i,
            "exec": sorted(list(k) for k in executed)}


# ---------------------------------------------------------------- the real DAG
class Built:
    def __init__(self):
        self.site_ids = {}      # path (tuple of site numbers) -> node id in the outermost DAG


def build(P, attrs, name="top", is_async=False, mc=2, built=None, _counter=None, share=None, presub=None):
    """Build the tawazi DAG of program P. attrs(fn_key) -> dict(priority, is_sequential, resource).

    Returns (dag, local_ids) where local_ids maps site number -> list of (relative path, id inside this DAG)."""
    from tawazi import and_, dag, not_, or_, xn

    _counter = _counter if _counter is not None else [0]
    subdags = []
    for k, Q in enumerate(P["subs"], 1):
        _counter[0] += 1
        subdags.append(build(Q, attrs, name=f"sub{_counter[0]}", is_async=False, mc=mc, _counter=_counter, share=share, presub=presub))
        # presub: sometimes the nested DAG has run its setup nodes on its own before it is called inside the outer one -
        # the outer DAG then starts with those results (they are copied under the prefixed ids)
        if presub is not None and setup_paths(Q) and presub():
            subdags[-1][0].setup()
    # share: one table of decorated functions for the DAGs of all nesting levels - outer and inner DAGs then use the SAME
    # function names, so only the id prefix of a nested DAG keeps their nodes apart (C20)
    fns = share if share is not None else {}
    fname_prefix = "f" if share is not None else name

    def fn_for(fname, setup=False, unpack=0, debug=False):
        if debug:
            if ("g", fname) not in fns:
                gfn = PLAIN[fname]

                def gwrapper(*a, **kw):
                    if PRE_HOOK is not None:
                        PRE_HOOK()
                    return gfn(*a, **kw)
                gwrapper.__qualname__ = gwrapper.__name__ = f"{fname_prefix}_{fname}_debug"
                fns[("g", fname)] = xn(gwrapper, debug=True, **attrs(f"{fname_prefix}_{fname}_debug"))
            return fns[("g", fname)]
        if unpack:
            # unpack_to declared where the function is decorated (@xn(unpack_to=n)) instead of where it is called
            if ("u", fname, unpack) not in fns:
                h = PLAIN[fname]

                def uwrapper(*a, **kw):
                    if PRE_HOOK is not None:
                        PRE_HOOK()
                    return h(*a, **kw)
                uwrapper.__qualname__ = uwrapper.__name__ = f"{fname_prefix}_{fname}_u{unpack}"
                fns[("u", fname, unpack)] = xn(uwrapper, unpack_to=unpack, **attrs(f"{fname_prefix}_{fname}_u{unpack}"))
            return fns[("u", fname, unpack)]
        if setup:
            if ("s", fname) not in fns:
                g = PLAIN[fname]

                def swrapper(*a, **kw):
                    if PRE_HOOK is not None:
                        PRE_HOOK()
                    return g(*a, **kw)
                swrapper.__qualname__ = swrapper.__name__ = f"{fname_prefix}_{fname}_setup"
                fns[("s", fname)] = xn(swrapper, setup=True, **attrs(f"{fname_prefix}_{fname}_setup"))
            return fns[("s", fname)]
        if fname not in fns:
            f = PLAIN[fname]

            def wrapper(*a, **kw):
                if PRE_HOOK is not None:
                    PRE_HOOK()
                return f(*a, **kw)
            wrapper.__qualname__ = wrapper.__name__ = f"{fname_prefix}_{fname}"
            fns[fname] = xn(wrapper, **attrs(f"{fname_prefix}_{fname}"))
        return fns[fname]
    local = {}
    resmap = {}     # node id -> the resource the harness asked for (the node must run on the matching kind of thread, C04)

    def res_for(fname, setup=False, unpack=0, debug=False):
        key = (f"{fname_prefix}_{fname}_debug" if debug else f"{fname_prefix}_{fname}_u{unpack}" if unpack
               else f"{fname_prefix}_{fname}_setup" if setup else f"{fname_prefix}_{fname}")
        return attrs(key).get("resource")

    def interp(*params):
        env = []

        def res(r):
            if r["c"] == "const":
                return decode(r["v"])
            if r["c"] == "param":
                return index(params[r["n"] - 1], r["path"])
            if r["c"] == "site":
                return index(env[r["n"] - 1], r["path"])
            return None
        for j, s in enumerate(P["sites"], 1):
            pos = [res(r) for r in s["args"]]
            kws = {k["name"]: res(k["ref"]) for k in s["kw"]}
            extra = {}
            if s["active"]["c"] != "none":
                extra["twz_active"] = res(s["active"])
            if s["kind"] == "sub":
                sd, sub_local = subdags[s["sub"] - 1]
                v = sd(*pos, **extra)
                local[j] = [((j,) + rel, f"{sd.qualname}.{iid}") for rel, iid in sub_local]
                for iid, r in getattr(sd, "_verif_resmap", {}).items():
                    resmap[f"{sd.qualname}.{iid}"] = r
            else:
                if s["kind"] == "call":
                    declared = s["unpack"] and s.get("declunpack") and not s.get("setup")
                    if s["unpack"] and not declared:
                        extra["twz_unpack_to"] = s["unpack"]
                    v = fn_for(s["fn"], s.get("setup", False), s["unpack"] if declared else 0, bool(s.get("debug")))(*pos, **kws, **extra)
                elif s["kind"] == "op":
                    v = (AUG if s.get("aug") else OPS)[s["fn"]](*pos)     # a op= b for some sites
                else:
                    v = {"and": and_, "or": or_, "not": not_}[s["fn"]](*pos, **extra)
                first = v[0] if isinstance(v, tuple) else v
                local[j] = [((j,), first.id)]
                if s["kind"] == "call":
                    declared = s["unpack"] and s.get("declunpack") and not s.get("setup")
                    resmap[first.id] = res_for(s["fn"], s.get("setup", False), s["unpack"] if declared else 0, bool(s.get("debug")))
            env.append(v)
        outs = [res(r) for r in P["ret"]["refs"]]
        shape = P["ret"]["shape"]
        return {"single": lambda: outs[0], "tuple": lambda: tuple(outs), "list": lambda: list(outs),
                "dict": lambda: dict(zip(P["ret"]["keys"], outs)), "none": lambda: None}[shape]()
    sig = []
    for p, prm in enumerate(P["params"], 1):
        sig.append(f"p{p}={decode(prm['v'])!r}" if prm["has"] else f"p{p}")
    src = f"def {name}({', '.join(sig)}):\n    return _interp({', '.join(f'p{p}' for p in range(1, len(P['params']) + 1))})\n"
    from prog_gen import Grid

    env = {"_interp": interp, "Grid": Grid}        # a default value may be a grid: its repr is the constructor call
    exec(compile(src, f"<prog {name}>", "exec"), env)  # noqa: S102
    env[name].__qualname__ = name
    if share is not None and name != "top":
        # nested DAGs described by functions of the same bare name that live in different namespaces (ns1.sub, ns2.sub):
        # the qualified name is what keeps their nodes apart
        env[name].__name__ = "sub"
        env[name].__qualname__ = f"ns{name[3:]}.sub"
    d = dag(env[name], max_concurrency=mc, is_async=is_async)
    flat = [x for j in sorted(local) for x in local[j]]
    try:
        d._verif_resmap = {i: r for i, r in resmap.items() if r is not None}
    except Exception:  # noqa: BLE001
        pass
    return d, flat


class Recorder:
    def __init__(self):
        self.entered = {}
        self.execs = []
        self.resmap = {}
        self.caller = None
        self.wrongthread = []

    def __call__(self, event, **f):
        if event == "exec_begin":
            self.execs.append(f["results"])
        elif event == "node_enter":
            if any(f["results"] is r for r in self.execs):
                i = f["xn"].id
                self.entered[i] = self.entered.get(i, 0) + 1
                if self.caller is not None and i in self.resmap:
                    # a main-thread node runs on the thread that called the DAG, every other node on a worker thread
                    import threading
                    on_caller = threading.get_ident() == self.caller
                    if (getattr(self.resmap[i], "name", str(self.resmap[i])) == "main_thread") != on_caller:
                        self.wrongthread.append(i)


def errclass(e):
    from tawazi.errors import TawaziArgumentException, TawaziBaseException, TawaziUsageError

    if isinstance(e, TawaziArgumentException):
        return "TawaziArgumentException"
    if isinstance(e, TawaziUsageError):
        return "TawaziUsageError"
    if isinstance(e, TawaziBaseException):
        return "TawaziBaseException:" + type(e.__cause__).__name__
    return type(e).__name__


def run_real(d, flat, given, is_async, dbg=False):
    """Call the real DAG; returns the observation (value or error class, executed site paths)."""
    from tawazi import _verif, cfg as twz_cfg

    twz_cfg.RUN_DEBUG_NODES = bool(dbg)

    import threading
    rec = Recorder()
    rec.resmap = getattr(d, "_verif_resmap", {})
    rec.caller = threading.get_ident()
    _verif.sink = rec
    obs = {"raised": False, "errclass": "", "val": None}
    try:
        a = [decode(x) for x in given]
        v = asyncio.run(d(*a)) if is_async else d(*a)
        obs["val"] = encode(v)
    except BaseException as e:  # noqa: BLE001
        obs["raised"] = True
        obs["errclass"] = errclass(e)
        obs["msg"] = str(e)[:200]
    finally:
        _verif.sink = None
        twz_cfg.RUN_DEBUG_NODES = False
    id2path = {}
    for path, iid in flat:
        id2path.setdefault(iid, path)
    execd, dup, unknown = [], False, []
    for iid, c in rec.entered.items():
        if iid in id2path:
            execd.append(list(id2path[iid]))
            dup = dup or c > 1
        else:
            unknown.append(iid)
    obs["exec"] = sorted(execd)
    obs["dup"] = dup
    obs["unknown"] = unknown[:5]
    obs["wrongthread"] = bool(rec.wrongthread)
    if obs["val"] is None:
        obs["val"] = {"k": "err", "i": 0, "s": [], "x": "", "ks": []}
    return obs


def run_real_turn(d, flat, givens, setup_paths, dbg=False):
    """AsyncDAG only: the coroutines of all the calls are created first, then awaited one after the other in one loop -
    the meaning is that of calls made one after the other.  Returns (observation, setup paths held before the call) list."""
    from tawazi import _verif

    id2path = {}
    for path, iid in flat:
        id2path.setdefault(iid, path)
    out = []

    async def main():
        coros = []
        for given in givens:
            try:
                coros.append(("ok", d(*[decode(x) for x in given])))
            except BaseException as e:  # noqa: BLE001
                coros.append(("err", e))
        for kind, c in coros:
            rec = Recorder()
            pre = sorted(list(path) for path, iid in flat if list(path) in setup_paths and iid in d.results)
            obs = {"raised": False, "errclass": "", "val": None}
            _verif.sink = rec
            try:
                if kind == "err":
                    raise c
                obs["val"] = encode(await c)
            except BaseException as e:  # noqa: BLE001
                obs["raised"] = True
                obs["errclass"] = errclass(e)
                obs["msg"] = str(e)[:200]
            finally:
                _verif.sink = None
            execd, dup, unknown = [], False, []
            for iid, n in rec.entered.items():
                if iid in id2path:
                    execd.append(list(id2path[iid]))
                    dup = dup or n > 1
                else:
                    unknown.append(iid)
            obs.update({"exec": sorted(execd), "dup": dup, "unknown": unknown[:5]})
            if obs["val"] is None:
                obs["val"] = {"k": "err", "i": 0, "s": [], "x": "", "ks": []}
            out.append((obs, pre))
    from tawazi import cfg as twz_cfg
    twz_cfg.RUN_DEBUG_NODES = bool(dbg)
    try:
        asyncio.run(main())
    finally:
        twz_cfg.RUN_DEBUG_NODES = False
    return out
