"""Running TLC / SANY from the harness and parsing what they print."""
import json
import os
import re
import shutil
import subprocess
import tempfile
import time

VERIF = os.path.dirname(os.path.dirname(os.path.abspath(__file__)))
SPEC = os.path.join(VERIF, "spec")
CACHE = os.path.join(VERIF, ".cache")
JAR = "/opt/veriftools/tla/tla2tools.jar:/opt/veriftools/tla/CommunityModules-deps.jar"


class TLCError(RuntimeError):
    pass


def run_tlc(module, cfg, env=None, workers=1, timeout=1800, simulate=None, depth=None, extra=(),
            deque=False, heap="4g", coverage=False, cwd=None):
    """Run TLC on spec/<module>.tla with spec/<cfg>; returns dict(out, rc, states, distinct, wall)."""
    os.makedirs(CACHE, exist_ok=True)
    meta = tempfile.mkdtemp(prefix="tlc-", dir=CACHE)
    jopts = ["-XX:+UseParallelGC", f"-Xmx{heap}"]
    if deque:
        jopts.append("-Dtlc2.tool.queue.IStateQueue=StateDeque")
    cmd = ["java", *jopts, "-cp", JAR, "tlc2.TLC", "-workers", str(workers), "-metadir", meta,
           "-noGenerateSpecTE", "-config", cfg]
    if simulate:
        cmd += ["-simulate", simulate]
    if depth:
        cmd += ["-depth", str(depth)]
    if coverage:
        cmd += ["-coverage", "1"]
    cmd += list(extra) + [module + ".tla"]
    e = dict(os.environ)
    e.pop("JAVA_TOOL_OPTIONS", None)
    if env:
        e.update({k: str(v) for k, v in env.items()})
    t0 = time.time()
    try:
        p = subprocess.run(cmd, cwd=cwd or SPEC, env=e, capture_output=True, text=True, timeout=timeout)
        out, rc = p.stdout + p.stderr, p.returncode
    except subprocess.TimeoutExpired as ex:
        out = (ex.stdout or b"").decode(errors="replace") if isinstance(ex.stdout, bytes) else (ex.stdout or "")
        rc = -9
    finally:
        shutil.rmtree(meta, ignore_errors=True)
    res = {"out": out, "rc": rc, "wall": time.time() - t0, "cmd": " ".join(cmd)}
    m = re.search(r"(\d+) states generated, (\d+) distinct states found", out)
    if m:
        res["states"], res["distinct"] = int(m.group(1)), int(m.group(2))
    m = re.search(r"The depth of the complete state graph search is (\d+)", out)
    if m:
        res["depth"] = int(m.group(1))
    return res


def verdicts(out):
    """Parse the lines `"VERDICT {json}"` printed by a trace specification."""
    res = {}
    for line in out.splitlines():
        line = line.strip()
        if line.startswith('"VERDICT '):
            body = line[len('"VERDICT '):-1]
            body = body.encode().decode("unicode_escape") if "\\" in body else body
            d = json.loads(body)
            res[d["tid"]] = d
    return res


def tlc_ok(res):
    """TLC finished its search without reporting an error of its own."""
    return "Model checking completed. No error has been found." in res["out"] or \
        "Finished computing initial states" in res["out"] and res["rc"] == 0


def sany(module):
    p = subprocess.run(["java", "-cp", JAR, "tla2sany.SANY", module + ".tla"], cwd=SPEC,
                       capture_output=True, text=True)
    return p.returncode == 0 and "Semantic errors" not in p.stdout, p.stdout
