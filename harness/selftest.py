#!/venv/bin/python
"""Mutation self-test (not part of any property's verdict).

selftest.py [name-prefix ...]: for every mutants/<name>.patch whose expectation is listed in
mutants/expect.json, apply it to a scratch worktree of /repo under /tmp, run the designated
check(s) with VERIF_REPO pointing there and compare the exit code with the expectation
(1 for property-breaking mutants, 0 for behaviour-preserving refactorings).
"""
import json
import os
import subprocess
import sys

VERIF = os.path.dirname(os.path.dirname(os.path.abspath(__file__)))
WT = "/tmp/verif-selftest-wt"


def sh(*a, **k):
    return subprocess.run(a, capture_output=True, text=True, **k)


def main():
    expect = json.load(open(os.path.join(VERIF, "mutants", "expect.json")))
    names = [n for n in sorted(expect) if not sys.argv[1:] or any(n.startswith(p) for p in sys.argv[1:])]
    sh("git", "-C", "/repo", "worktree", "remove", "--force", WT)
    r = sh("git", "-C", "/repo", "worktree", "add", "--detach", WT, "HEAD")
    if r.returncode:
        print(r.stderr)
        return 2
    bad = 0
    try:
        for n in names:
            patch = os.path.join(VERIF, "mutants", n + ".patch")
            sh("git", "-C", WT, "checkout", "--", ".")
            a = sh("git", "-C", WT, "apply", patch)
            if a.returncode:
                print(f"{n}: PATCH DOES NOT APPLY {a.stderr.strip()[:200]}")
                bad += 1
                continue
            for prop, want in expect[n].items():
                env = dict(os.environ, VERIF_REPO=WT, VERIF_EVIDENCE_DIR="/tmp/verif-selftest-evidence")
                p = sh("/venv/bin/python", os.path.join(VERIF, "harness", "check.py"), prop, "--tier", "quick", env=env)
                ok = p.returncode == want
                bad += not ok
                last = [ln for ln in p.stdout.splitlines() if ln.startswith(("VIOLATION", "OK", "MACHINERY", "KNOWN"))][:2]
                print(f"{n}: {prop} exit={p.returncode} want={want} {'ok' if ok else 'MISSED'} {last}", flush=True)
    finally:
        sh("git", "-C", "/repo", "worktree", "remove", "--force", WT)
        sh("rm", "-rf", "/tmp/verif-selftest-evidence")
    return 1 if bad else 0


if __name__ == "__main__":
    sys.exit(main())
