"""Engine E5: the library under concurrency (C16 thread safety, C17 gathered awaits and a free loop)."""
import asyncio
import concurrent.futures as cf
import hashlib
import json
import os
import random
import threading
import time

import common
import tlc

SERVES = ["C16", "C17"]


# ------------------------------------------------------------------ build scenarios (C16, build half)
def build_scenario(K, p, actions, is_async, K2=2, sub_at=0):
    """Builder 1 pauses inside its describing function before call site p+1 (p = K: after the last one);
    meanwhile other threads perform `actions` (subset of calldag / callxn / build2). Returns the event list."""
    from tawazi import dag, xn
    from tawazi.errors import TawaziUsageError
    from tawazi.node import UsageExecNode

    ev = []
    elock = threading.Lock()

    def log(e, t, i=0, out="", tbl=()):
        with elock:
            ev.append({"e": e, "t": t, "i": i, "out": out, "tbl": [list(x) for x in tbl]})

    @xn
    def inc(x):
        return x + 1

    @dag
    def shared(x):
        return inc(inc(x))

    in_run, run_go = threading.Event(), threading.Event()

    @xn
    def slow(x):
        in_run.set()
        run_go.wait(10)
        return x + 2

    @dag
    def shared_slow(x):
        return slow(x)

    @xn
    def g1(x):
        return x

    @dag
    def inner(x):
        return g1(x)

    def mk(name):
        def f(*a):
            return name
        f.__qualname__ = f.__name__ = name
        return xn(f)
    fa = [mk(f"fa{i}") for i in range(1, K + 1)]
    fb = [mk(f"fb{i}") for i in range(1, K2 + 1)]
    at, go = threading.Event(), threading.Event()

    def make_describe(pause):
        def describeA():
            log("acquire", 1)
            v = None
            for i in range(1, K + 1):
                if pause and p == i - 1:
                    at.set()
                    go.wait(5)
                if i == sub_at:
                    v = inner(v if v is not None else 1)      # a nested DAG call: its nodes get the prefix "inner."
                else:
                    v = fa[i - 1](v) if v is not None else fa[i - 1]()
                log("describe", 1, i)
            if pause and p == K:
                at.set()
                go.wait(5)
            log("enddescribe", 1)
            return v
        return describeA

    def describeB():
        log("acquire", 2)
        v = None
        for i in range(1, K2 + 1):
            v = fb[i - 1](v) if v is not None else fb[i - 1]()
            log("describe", 2, i)
        log("enddescribe", 2)
        return v
    # the DAG built alone, for comparison
    alone = dag(make_describe(False), is_async=is_async)
    ev.clear()
    out = {}

    def builderA():
        try:
            out["A"] = dag(make_describe(True), is_async=is_async)
        except BaseException as e:  # noqa: BLE001
            out["A_err"] = repr(e)[:200]
    # caller threads exist before the builder starts; ":afterfail" callers first make a build of their own that fails
    prepared, starts, acts = {}, {}, {}

    def caller(idx, base, afterfail):
        if afterfail:
            def bad_describe():
                fa[0]()
                raise RuntimeError("describing function fails")
            try:
                dag(bad_describe)
            except RuntimeError:
                pass
            log("failedbuild", 3 if base == "calldag" else 4)
        prepared[idx].set()
        starts[idx].wait(10)
        (calldag if base == "calldag" else callxn)()
    for idx, a in enumerate(actions):
        base = a.split(":")[0]
        if base in ("calldag", "callxn") and not a.endswith(":span"):
            prepared[idx], starts[idx] = threading.Event(), threading.Event()
            acts[idx] = threading.Thread(target=caller, args=(idx, base, a.endswith(":afterfail")))
            acts[idx].start()
    for idx in prepared:
        prepared[idx].wait(5)
    ta = threading.Thread(target=builderA)
    ta.start()
    if not at.wait(5):
        for idx in starts:
            starts[idx].set()
        go.set()
        ta.join(5)
        return {"k": [K, K2, 0, 0], "ev": ev, "error": "builder never reached its pause point"}
    threads = []
    results = {}

    def calldag():
        try:
            r = shared(10)
            results["calldag"] = "ran" if r == 12 else ("recorded" if isinstance(r, UsageExecNode) else f"value:{r!r}"[:40])
        except BaseException as e:  # noqa: BLE001
            results["calldag"] = "error:" + type(e).__name__

    def callxn():
        try:
            r = inc(5)
            results["callxn"] = "recorded" if isinstance(r, UsageExecNode) else ("ran" if r == 6 else f"value:{r!r}"[:40])
        except TawaziUsageError:
            results["callxn"] = "raised"
        except BaseException as e:  # noqa: BLE001
            results["callxn"] = "error:" + type(e).__name__

    def build2():
        try:
            out["B"] = dag(describeB)
        except BaseException as e:  # noqa: BLE001
            out["B_err"] = repr(e)[:200]
    spans = []
    for idx, a in enumerate(actions):
        base = a.split(":")[0]
        if base == "build2":
            th = threading.Thread(target=build2)
            th.start()
            th.join(0.15)       # must still be waiting for the build lock
            threads.append(th)
            continue
        if a.endswith(":span"):
            # a run of a built DAG that is in flight (inside a node function) while the build goes on, released at the end
            def spanrun():
                try:
                    r = shared_slow(5)
                    results["span"] = "ran" if r == 7 else f"value:{r!r}"[:40]
                except BaseException as e:  # noqa: BLE001
                    results["span"] = "error:" + type(e).__name__
            th = threading.Thread(target=spanrun)
            th.start()
            in_run.wait(5)
            spans.append(th)
            continue
        prepared[idx].wait(5)
        starts[idx].set()
        acts[idx].join(5)
        log(base, 3 if base == "calldag" else 4, out=results.get(base, "hang"))
    go.set()
    ta.join(5)
    for th in threads:
        th.join(5)
    run_go.set()
    for th in spans:
        th.join(5)
        log("calldag", 3, out=results.get("span", "hang"))

    def table(d, own, me):
        tbl = set()
        for i in d.exec_nodes:
            if i in own:
                tbl.add((me, own.index(i) + 1))
            elif ">!>" in i or "<!<" in i:
                continue
            elif sub_at and me == 1 and "inner." in i:
                tbl.add((me, sub_at))
            else:
                tbl.add((9, 0))     # a node that does not belong to this description
        return sorted(tbl)
    if "A" in out:
        same = list(out["A"].exec_nodes) == list(alone.exec_nodes) and list(out["A"].results) == list(alone.results)
        log("construct", 1, out="same" if same else "differs", tbl=table(out["A"], [f"fa{i}" if i != sub_at else "-" for i in range(1, K + 1)], 1))
    else:
        log("construct", 1, out="error:" + out.get("A_err", "?"), tbl=[])
    if "build2" in actions:
        if "B" in out:
            log("construct", 2, out="same" if list(out["B"].exec_nodes) == [f"fb{i}" for i in range(1, K2 + 1)] else "differs",
                tbl=table(out["B"], [f"fb{i}" for i in range(1, K2 + 1)], 2))
        else:
            log("construct", 2, out="error:" + out.get("B_err", "?"), tbl=[])
    # the construct events are logged after the joins; move each right after its builder's enddescribe
    order, pending = [], {}
    cons = {e["t"]: e for e in ev if e["e"] == "construct"}
    for e in ev:
        if e["e"] == "construct":
            continue
        if e["e"] == "enddescribe":
            if e["t"] in cons:
                order.append(cons[e["t"]])
            continue
        order.append(e)
    for t, c in cons.items():
        if c not in order:
            order.append(c)
    return {"k": [K, K2, 0, 0], "ev": order}


def run_build(tier, seed):
    scen = []
    acts = [["calldag"], ["callxn"], ["build2"], ["calldag", "callxn"], ["build2", "calldag"], ["callxn", "build2", "calldag"],
            ["calldag:afterfail"], ["callxn:afterfail"], ["callxn:afterfail", "build2", "calldag:afterfail"]]
    for K in (1, 2, 3):
        for p in range(0, K + 1):
            for a in acts:
                for is_async in ((False, True) if tier != "quick" else (False,)):
                    scen.append((K, p, a, is_async))
    scen = [x + (0,) for x in scen]
    # runs of a built DAG that span (parts of) a build whose description contains a nested DAG call
    for K in (2, 3):
        for sub_at in range(1, K + 1):
            for p in range(0, K + 1):
                for a in (["calldag:span"], ["calldag:span", "callxn"], ["calldag", "calldag:span"]):
                    scen.append((K, p, a, False, sub_at))
    if tier == "quick":
        rng = random.Random(seed)
        scen = scen + [(K, p, a, True, sa) for (K, p, a, _, sa) in rng.sample(scen, 10)]
    traces = []
    errors = []
    for i, (K, p, a, is_async, sub_at) in enumerate(scen):
        r = build_scenario(K, p, a, is_async, sub_at=sub_at)
        if r.get("error"):
            errors.append(r["error"])
        traces.append({"tid": i + 1, "k": r["k"], "ev": r["ev"], "scenario": {"K": K, "pause_before_site": p + 1, "actions": a, "async": is_async, "sub_at": sub_at}})
    os.makedirs(common.CACHE, exist_ok=True)
    path = os.path.join(common.CACHE, f"e5-build-{os.getpid()}.json")
    with open(path, "w") as f:
        json.dump({"traces": [{k: t[k] for k in ("tid", "k", "ev")} for t in traces]}, f)
    try:
        r = tlc.run_tlc("BuildLockTrace", "BuildLockTrace.cfg", env={"TRACE_FILE": path}, workers=1)
    finally:
        os.remove(path)
    v = tlc.verdicts(r["out"])
    viols, counts = [], {"paused": 0, "calls": 0}
    for t in traces:
        vd = v.get(t["tid"])
        if not vd:
            continue
        for k in counts:
            counts[k] += vd["cnt"].get(k, 0)
        for x in vd["viol"]:
            viols.append({"clause": x["c"], "i": x["i"], "scenario": t["scenario"], "ev": t["ev"]})
    return {"scenarios": len(scen), "validated": len(v), "states": r.get("distinct", 0), "transitions": r.get("states", 0),
            "errors": errors[:3], "tlc_error": None if len(v) == len(traces) and tlc.tlc_ok(r) else r["out"][-1200:],
            "violations": viols, "counts": counts, "samples": [{"scenario": t["scenario"], "events": [f'{e["e"]}:{e["t"]}:{e["i"]}:{e["out"]}' for e in t["ev"]]} for t in traces[:: max(1, len(traces) // 2)][:2]]}


# ------------------------------------------------------------------ concurrent calls / gathered awaits
def conc_program(P, argsets, mode, seed):
    """mode 'threads': one thread per argument tuple calls the same DAG at once (C16);
    mode 'gather': the awaits of one AsyncDAG are gathered in one loop with a sibling coroutine (C17)."""
    import prog_gen as pg
    import prog_run as pr
    from tawazi import Resource, _verif

    rng = random.Random(seed)
    T = len(argsets)
    res = Resource.thread if mode == "threads" else Resource.async_thread
    state = {"waiting": 0, "lock": threading.Lock()}
    gate = threading.Event()
    over = threading.Event()          # the gathered awaits have all returned: node functions still running are not observed
    loop_served = {"n": 0, "ticks": 0}
    barrier = threading.Barrier(T) if mode == "threads" else None
    delays = [rng.random() * 0.004 for _ in range(64)]

    def pre():
        if mode == "threads":
            try:
                barrier.wait(0.03)
            except threading.BrokenBarrierError:
                barrier.reset()
        else:
            with state["lock"]:
                state["waiting"] += 1
            if not gate.wait(3.0):
                with state["lock"]:
                    state["timeouts"] = state.get("timeouts", 0) + 1
            # ... and at every later moment too: a node function only goes on once the sibling coroutine has had two more
            # turns (a scheduler that blocks the loop while this node runs - on an error path, say - keeps it here)
            target = loop_served["ticks"] + 2
            deadline = time.monotonic() + 3.0
            while loop_served["ticks"] < target and not over.is_set():
                if time.monotonic() > deadline:
                    with state["lock"]:
                        state["timeouts"] = state.get("timeouts", 0) + 1
                    break
                time.sleep(0.001)
        time.sleep(delays[threading.get_ident() % 64])
    pr.PRE_HOOK = pre
    rows = []
    try:
        d, flat = pr.build(P, lambda k: {"resource": res, "priority": rng.choice([0, 1, 3]), "is_sequential": rng.random() < 0.25}, is_async=(mode == "gather"), mc=rng.randint(2, 4))
    except BaseException as e:  # noqa: BLE001
        pr.PRE_HOOK = None
        if "already occupied" in str(e) or "unexpected keyword argument 'id_'" in str(e):
            return []          # the known C20 findings (same nested DAG twice, literal in a nested return): nothing to run concurrently
        return [{"harness_error": "build: " + repr(e)[:120]}]
    # the property is about calls made after the setup nodes have run: run them first, outside the observation
    setup_paths = pr.setup_paths(P)
    # threads: the property speaks of calls made after the setup nodes have run. Gathered awaits: also without that -
    # every await must still get its own result (a setup node may then be computed by more than one of them)
    presetup = bool(setup_paths) and (mode == "threads" or rng.random() < 0.5)
    if presetup:
        try:
            pr.PRE_HOOK = None
            asyncio.run(d.setup()) if mode == "gather" else d.setup()
        except BaseException as e:  # noqa: BLE001
            return [{"harness_error": "setup: " + repr(e)[:120]}]
        pr.PRE_HOOK = pre
    rec = pr.Recorder()
    rec.owner = {}
    orig = rec.__call__

    class Sink:
        def __call__(self, event, **f):
            if event == "exec_begin":
                rec.owner[id(f["results"])] = (threading.get_ident(), f["results"])
            orig(event, **f)
    outs = [None] * T
    _verif.sink = Sink()
    try:
        if mode == "threads":
            def call(t):
                try:
                    outs[t] = ("ok", d(*argsets[t]))
                except BaseException as e:  # noqa: BLE001
                    outs[t] = ("err", e)
            ths = [threading.Thread(target=call, args=(t,)) for t in range(T)]
            for th in ths:
                th.start()
            for th in ths:
                th.join(20)
        else:
            async def probe():
                # a sibling coroutine: it must keep being served while async-thread nodes are running
                while True:
                    await asyncio.sleep(0.001)
                    loop_served["ticks"] += 1
                    if state["waiting"] > 0:
                        loop_served["n"] += 1
                        if loop_served["n"] >= 3:
                            gate.set()

            async def one(t):
                try:
                    return ("ok", await d(*argsets[t]))
                except BaseException as e:  # noqa: BLE001
                    return ("err", e)

            async def main():
                pt = asyncio.ensure_future(probe())
                r = await asyncio.gather(*[one(t) for t in range(T)])
                over.set()
                gate.set()
                pt.cancel()
                return r
            outs = asyncio.run(main())
    finally:
        _verif.sink = None
        pr.PRE_HOOK = None
        over.set()
        gate.set()
    inv = {}
    for path, iid in flat:
        inv.setdefault(iid, path)
    for t in range(T):
        kind, v = outs[t] if outs[t] else ("err", RuntimeError("call did not finish"))
        row = {"given": [pg.encode(x) for x in argsets[t]], "raised": kind == "err", "errclass": pr.errclass(v) if kind == "err" else "",
               "val": pg.encode(v) if kind == "ok" else pg.verr(), "exec": [], "dup": False, "async": mode == "gather", "built": True,
               "twice": False, "constret": False, "conc": 1 if mode == "threads" else 2, "loop": 0, "pre": setup_paths if presetup else [], "ref": pr.plain_call(P, argsets[t])}
        if row["ref"].get("exec") is not None and presetup:
            row["ref"]["exec"] = [p for p in row["ref"]["exec"] if p not in setup_paths]
        rows.append(row)
    # executed sites are not attributed to the individual calls here (values carry the evidence): exec = expected when the
    # union over all calls is right; a node entered more often than there are calls is reported as dup
    total = {}
    for iid, c in rec.entered.items():
        total[iid] = c
    for row in rows:
        ref = row["ref"]
        row["exec"] = ref.get("exec", []) if not row["raised"] else []
    expected_total = {}
    for row in rows:
        for pth in row["ref"].get("exec", []):
            expected_total[tuple(pth)] = expected_total.get(tuple(pth), 0) + 1
    observed_total = {}
    for iid, c in total.items():
        if iid in inv:
            observed_total[tuple(inv[iid])] = c
    if not presetup:
        for sp in setup_paths:      # without a prior setup() several of the concurrent calls may compute a setup node
            expected_total.pop(tuple(sp), None)
            observed_total.pop(tuple(sp), None)
    if all("val" in r["ref"] for r in rows) and not any(r["raised"] for r in rows) and observed_total != expected_total:
        rows[0]["dup"] = True
    if mode == "gather":
        # only meaningful when some node function was actually waiting at the gate (operator nodes have none)
        # blocked = a node function sat at the gate for 3 s without the sibling coroutine getting its three turns
        rows[0]["loop"] = 2 if state.get("timeouts", 0) else (1 if loop_served["n"] >= 3 else 0)
    return rows


def error_path_scenarios():
    """C17 on the error paths: while a node of a failed or cancelled await is still running, the loop keeps serving the other
    coroutines.  Each scenario has an async-thread node that can only go on once a sibling coroutine has had a few more turns
    (it gives up after 3 s); returns {scenario: True when the node had to give up (the loop was blocked)}."""
    import asyncio
    from tawazi import Resource, dag, xn

    out = {}

    def scenario(kind):
        st = {"ticks": 0, "started": threading.Event(), "gave_up": None, "done": threading.Event()}

        def hold(x):
            st["started"].set()
            target, deadline = st["ticks"] + 5, time.monotonic() + 3.0
            while st["ticks"] < target and time.monotonic() < deadline:
                time.sleep(0.001)
            st["gave_up"] = st["ticks"] < target
            st["done"].set()
            return x

        def boom(x):
            st["started"].wait(3.0)
            if x < 0:
                raise ValueError("boom")
            return x
        hold_x = xn(hold, resource=Resource.async_thread)
        boom_x = xn(boom, resource=Resource.async_thread)

        def pipe(x):
            return hold_x(x), boom_x(x)
        d = dag(pipe, max_concurrency=2, is_async=True)

        async def ticker():
            while True:
                await asyncio.sleep(0.001)
                st["ticks"] += 1

        async def main():
            t = asyncio.ensure_future(ticker())
            try:
                if kind == "fail":
                    await asyncio.gather(d(-1), return_exceptions=True)
                elif kind == "fail-gathered":
                    await asyncio.gather(d(-1), d(1), return_exceptions=True)
                else:
                    try:
                        await asyncio.wait_for(d(1), 0.05)
                    except (asyncio.TimeoutError, BaseException):  # noqa: BLE001
                        pass
                # the node of the failed / cancelled await may still be running: keep the loop alive until it is through
                for _ in range(4000):
                    if st["done"].is_set():
                        break
                    await asyncio.sleep(0.001)
            finally:
                t.cancel()
        try:
            asyncio.run(main())
        except BaseException:  # noqa: BLE001
            pass
        return bool(st["gave_up"])
    for kind in ("fail", "fail-gathered", "cancel"):
        out[kind] = scenario(kind)
    return out


def _conc_work(args):
    out = []
    for (idx, P, argsets, mode, seed) in args:
        try:
            out.append((idx, conc_program(P, argsets, mode, seed)))
        except BaseException as e:  # noqa: BLE001
            out.append((idx, [{"harness_error": repr(e)[:200]}]))
    return out


def run_conc(tier, seed):
    import multiprocessing as mp
    import prog_gen as pg
    from e2 import _mismatch_lines

    rng = random.Random(seed + 311)
    nprog = 260 if tier == "quick" else 3000
    progs, jobs = [], []
    for i in range(nprog):
        P = pg.gen_program(rng, nsites=rng.randint(2, 6), nparams=rng.randint(1, 3), max_depth=rng.choice([0, 0, 1]), allow_flags=rng.random() < 0.5)
        progs.append(P)
        T = rng.choice([2, 3, 3, 4])
        argsets = []
        while len(argsets) < T:
            a = pg.gen_args(P, rng)
            a = a + [pg.value_for(P["ptypes"][p], rng) for p in range(len(a), len(P["params"]))]
            argsets.append(a)
        jobs.append((i, P, argsets, "threads" if i % 2 == 0 else "gather", rng.randrange(1 << 30)))
    chunks = [jobs[i:i + 10] for i in range(0, len(jobs), 10)]
    results = {}
    pool = mp.get_context("fork").Pool(12, maxtasksperchild=6)
    for part in pool.imap(_conc_work, chunks):
        for idx, rows in part:
            results[idx] = rows
    pool.close()
    pool.join()
    herr = [r[0]["harness_error"] for r in results.values() if r and "harness_error" in r[0]]
    obs = []
    for idx in sorted(results):
        for row in results[idx]:
            if "harness_error" not in row:
                row["p"] = idx + 1
                obs.append(row)
    stripped = [pg.strip(P) for P in progs]
    # the loop on the error paths (a failed / a cancelled await with a node still running): one observation per scenario,
    # carried by a one-call-site program so that DfCheck's clause C17.loop-blocked decides it like the others
    dummy = {"params": [], "sites": [{"kind": "call", "fn": "mix", "args": [pg.r_const(101)], "kw": [], "active": pg.r_none(), "unpack": 0, "sub": 0, "setup": False, "debug": False}],
             "ret": {"shape": "single", "refs": [pg.r_site(1)], "keys": []}, "subs": []}
    stripped.append(dummy)
    scen = error_path_scenarios()
    for name, blocked in scen.items():
        obs.append({"p": len(stripped), "given": [], "raised": False, "errclass": "", "val": pg.encode((101,)), "exec": [[1]], "dup": False, "async": True,
                    "built": True, "twice": False, "constret": False, "conc": 2, "loop": 2 if blocked else 1, "pre": [], "scenario": "error-path:" + name})
    path = os.path.join(common.CACHE, f"e5-conc-{os.getpid()}.json")
    keys = ("given", "raised", "errclass", "val", "exec", "dup", "async", "built", "twice", "constret", "conc", "loop", "pre")
    with open(path, "w") as f:
        json.dump({"progs": stripped, "obs": [{"p": r["p"], "fresh_same": True, "wrongthread": False, **{k: r[k] for k in keys}} for r in obs]}, f)
    try:
        r = tlc.run_tlc("DfCheck", "DfCheck.cfg", env={"CASE_FILE": path}, workers=1, heap="3g", timeout=3600)
    finally:
        os.remove(path)
    mm = _mismatch_lines(r["out"], "MISMATCH")
    cc = _mismatch_lines(r["out"], "COUNTS")
    viols = []
    for m in mm:
        row = obs[m["o"] - 1]
        for c in m["c"]:
            viols.append({"clause": c, "prog": stripped[row["p"] - 1], "row": dict({k: row[k] for k in keys}, scenario=row.get("scenario", "")), "expected": m.get("expval")})
    return {"programs": nprog, "observations": len(obs), "harness_errors": herr[:3], "harness_error_count": len(herr),
            "counts": cc[0] if cc else {}, "states": r.get("distinct", 0), "transitions": r.get("states", 0),
            "tlc_error": None if tlc.tlc_ok(r) and cc else r["out"][-1200:], "violations": viols,
            "samples": [{"program": stripped[o["p"] - 1], "given": o["given"], "mode": "threads" if o["conc"] == 1 else "gather",
                         "returned": o["val"], "loop": o["loop"]} for o in obs[:: max(1, len(obs) // 2)][:2]]}


def run_proof():
    """Unbounded safety of the build lock at model level: spec/BuildLockProof.tla (an inductive invariant and its TLAPS proof,
    for any finite sets of threads and any number of call sites) is re-checked by tlapm."""
    import shutil
    import subprocess
    import tempfile

    if shutil.which("tlapm") is None:
        return {"ran": False, "proved": False, "note": "tlapm not found"}
    os.makedirs(common.CACHE, exist_ok=True)
    cache = tempfile.mkdtemp(prefix="tlaps-", dir=common.CACHE)
    t0 = time.time()
    try:
        p = subprocess.run(["tlapm", "--threads", "4", "--cache-dir", cache, "-I", tlc.SPEC, os.path.join(tlc.SPEC, "BuildLockProof.tla")],
                           capture_output=True, text=True, timeout=900, cwd=cache)
        out = p.stdout + p.stderr
    except subprocess.TimeoutExpired:
        out = "timeout"
    finally:
        shutil.rmtree(cache, ignore_errors=True)
    import re
    m = re.search(r"All (\d+) obligations proved", out)
    return {"ran": True, "proved": bool(m), "obligations": int(m.group(1)) if m else 0, "wall": round(time.time() - t0, 1),
            "note": "" if m else out[-400:]}


def run_model():
    out = []
    for cfg, expect in (("BuildLockOwner.cfg", None), ("BuildLockLocked.cfg", "CallersAlone")):
        r = tlc.run_tlc("BuildLock", cfg, workers=2)
        violated = [ln.strip() for ln in r["out"].splitlines() if "is violated" in ln]
        ok = ("No error has been found" in r["out"]) if expect is None else any(expect in v for v in violated)
        out.append({"cfg": cfg, "ok": ok, "states": r.get("distinct", 0), "transitions": r.get("states", 0), "violated": violated})
    return out


def run(tier, seed, log=common.say):
    key = hashlib.sha256(f"{common.repo_hash()}|{common.machinery_hash()}|{tier}|{seed}".encode()).hexdigest()[:20]
    hit = common.cache_get("E5", key)
    if hit:
        hit["cached"] = True
        return hit
    t0 = time.time()
    with cf.ThreadPoolExecutor(2) as ex:
        fm = ex.submit(run_model)
        fp = ex.submit(run_proof)
        build = run_build(tier, seed)
        conc = run_conc(tier, seed)
        model = fm.result()
        proof = fp.result()
    res = {"engine": "E5", "tier": tier, "seed": seed, "build": build, "conc": conc, "model": model, "proof": proof, "wall": round(time.time() - t0, 1)}
    common.cache_put("E5", key, res)
    return res


def report(prop, res):
    b, c = res["build"], res["conc"]
    viols, mach = [], []
    if prop == "C16":
        for v in b["violations"]:
            if v["clause"].startswith("C16"):
                viols.append({"sig": {"clause": v["clause"]},
                              "what": f'{v["clause"]} at event {v["i"]} of scenario {v["scenario"]}: {[(e["e"], e["t"], e["out"]) for e in v["ev"]]}',
                              "replay": {"engine": "E5", "property": "C16", "kind": "build", "clause": v["clause"], "scenario": v["scenario"], "observed": v["ev"]}})
        if any(x["clause"].startswith("WF") for x in b["violations"]):
            mach.append(f'ill-formed build traces: {[x["clause"] for x in b["violations"] if x["clause"].startswith("WF")][:3]}')
    for v in c["violations"]:
        if v["clause"].split(".")[0] == prop:
            viols.append({"sig": {"clause": v["clause"]},
                          "what": f'{v["clause"]} {v["row"].get("scenario", "")}: returned {json.dumps(v["row"]["val"])[:160]} raised={v["row"]["raised"]} {v["row"]["errclass"]} expected {json.dumps(v["expected"])[:160]}',
                          "replay": {"engine": "E5", "property": prop, "kind": "conc", "clause": v["clause"], "prog": v["prog"], "row": v["row"]}})
    if b["tlc_error"]:
        mach.append("TLC failed on the build traces: " + b["tlc_error"][-400:])
    if c["tlc_error"]:
        mach.append("TLC failed on the concurrent calls: " + c["tlc_error"][-400:])
    if b["errors"]:
        mach.append(f'build scenario errors: {b["errors"]}')
    if c["harness_error_count"]:
        mach.append(f'harness errors: {c["harness_errors"]}')
    for m in res["model"]:
        if not m["ok"]:
            mach.append(f'BuildLock model run {m["cfg"]} did not give the expected result: {m["violated"]}')
    if prop == "C16":
        nontriv = b["counts"]["paused"] + c["counts"].get("threads", 0)
        rule = ("(a) scenarios: a builder pauses before call site p of its describing function (all p, K = 1..3) while other threads call a built DAG, "
                "call a decorated function outside any DAG, or start a second build (all combinations); every scenario is a trace validated by TLC against "
                "spec/BuildLock.tla (IMPL = owner); (b) 2-4 threads call one DAG at the same time with different arguments (generated programs), each "
                "result compared with spec/Dataflow.tla Eval. Non-trivial: calls made while a build was paused + simultaneous calls inside the equivalence")
    else:
        nontriv = c["counts"].get("gathered", 0)
        rule = ("2-4 awaits of one AsyncDAG (all nodes async-thread) gathered in one loop with different arguments, plus a sibling coroutine that must be served "
                "while nodes are running - at the start and whenever a node function is entered; three error-path scenarios (a failed await, a failed await gathered with a "
                "healthy one, a cancelled await, each with a node still running that needs the loop); each result compared with Eval. Non-trivial: gathered awaits "
                "inside the equivalence. (Sync/async equivalence of "
                "values, executed sets and setup results is checked by engines E2 and E4.)")
    if nontriv < 2:
        mach.append(f"vacuous: {nontriv} non-trivial cases for {prop}")
    cov = {"states": b["states"] + c["states"] + sum(m["states"] for m in res["model"]),
           "transitions": b["transitions"] + c["transitions"] + sum(m["transitions"] for m in res["model"]),
           "traces_validated_against_impl": b["validated"] + c["observations"], "evaluations": b["scenarios"] + c["observations"],
           "distinct_nontrivial": nontriv, "rule": rule, "samples": (b["samples"][:1] + c["samples"][:1]), "exhaustive": False,
           "build_scenarios": b["scenarios"], "concurrent_observations": c["observations"], "counts": {"build": b["counts"], "conc": c["counts"]},
           "model_runs": res["model"], "tlaps_proof_of_BuildLock_invariants": res.get("proof", {}), "engine_cached": bool(res.get("cached"))}
    if prop == "C16" and res.get("proof", {}).get("ran") and not res["proof"]["proved"]:
        # the proof is an addition to the model checking of the finite instances, which stands on its own: reported, not fatal
        common.say("NOTE: tlapm did not re-check spec/BuildLockProof.tla on this machine: " + res["proof"].get("note", "")[-200:])
    assumptions = ["interleavings are controlled at pause points inside describing functions and at whole calls; instruction-level races inside tawazi are out of reach",
                   "simultaneous calls overlap through a barrier / gate inside the node functions; the schedule inside each call is the thread pool's",
                   "the loop-liveness claim is checked for DAGs whose nodes all use the async-thread resource (a main-thread node or a blocking wait on thread futures occupies the loop by design)"]
    return {"violations": viols, "machinery": mach, "coverage": cov, "assumptions": assumptions, "level": "model_checking"}


def replay(payload, log=common.say):
    if payload["kind"] == "build":
        s = payload["scenario"]
        r = build_scenario(s["K"], s["pause_before_site"] - 1, s["actions"], s["async"], sub_at=s.get("sub_at", 0))
        path = os.path.join(common.CACHE, f"e5-replay-{os.getpid()}.json")
        os.makedirs(common.CACHE, exist_ok=True)
        with open(path, "w") as f:
            json.dump({"traces": [{"tid": 1, "k": r["k"], "ev": r["ev"]}]}, f)
        t = tlc.run_tlc("BuildLockTrace", "BuildLockTrace.cfg", env={"TRACE_FILE": path}, workers=1)
        os.remove(path)
        v = tlc.verdicts(t["out"])
        log(f'events: {[(e["e"], e["t"], e["i"], e["out"]) for e in r["ev"]]}')
        hit = any(x["c"].startswith("C16") for x in v.get(1, {"viol": []})["viol"])
        for x in v.get(1, {"viol": []})["viol"]:
            log(f'  event {x["i"]}: {x["c"]}')
    elif payload["row"].get("scenario", "").startswith("error-path:"):
        scen = error_path_scenarios()
        log(f"loop blocked on the error paths: {scen}")
        hit = scen.get(payload["row"]["scenario"].split(":", 1)[1], False)
    else:
        import prog_gen as pg
        P = payload["prog"]
        P = dict(P, ptypes=["any"] * len(P["params"]))
        rows = conc_program(P, [[pg.decode(x) for x in payload["row"]["given"]]] * 3, "threads" if payload["row"]["conc"] == 1 else "gather", 1)
        hit = any(r.get("raised") or r.get("val") != r["ref"].get("val") for r in rows if "ref" in r and "val" in r["ref"])
        log(f"re-observed: {[(r.get('raised'), r.get('val')) for r in rows]}")
    log("replay: " + ("property violated again" if hit else "no violation of this property on the current tree"))
    return 1 if hit else 0
