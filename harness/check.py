#!/venv/bin/python
"""Entry point of every check:  check.py <Cxx> [--tier quick|thorough] [--replay file]

exit 0: the property held on everything explored (KNOWN-FINDING lines possible)
exit 1: a violation not listed in known_findings.json: `VIOLATION property=<id> replay=<path>`
exit 2: the machinery failed (TLC crashed, vacuous run, ill-formed trace) - never silently 0
"""
import argparse
import importlib
import json
import os
import sys
import time

HERE = os.path.dirname(os.path.abspath(__file__))
sys.path.insert(0, HERE)
import common  # noqa: E402

ENGINES = {
    "C02": ["e1", "e2", "e4"], "C03": ["e1", "e4", "e3"], "C04": ["e1", "e2"], "C05": ["e1"], "C06": ["e1", "e3"], "C08": ["e1"],
    "C09": ["e1", "e4"], "C14": ["e1"],
    "C07": ["e3"], "C12": ["e3"], "C13": ["e3", "e2"],
    "C11": ["e4", "e3"], "C15": ["e4", "e2c", "e2"], "C18": ["e4"],
    "C01": ["e2"], "C10": ["e2"], "C20": ["e2", "e2c"], "C19": ["e2c"],
    "C16": ["e5"], "C17": ["e5", "e2", "e1", "e4"],
}


def main():
    ap = argparse.ArgumentParser()
    ap.add_argument("prop")
    ap.add_argument("--tier", default=os.environ.get("VERIF_TIER", "quick"), choices=["quick", "thorough"])
    ap.add_argument("--replay")
    a = ap.parse_args()
    seed = int(os.environ.get("VERIF_SEED", "0") or 0)
    prop = a.prop
    if a.replay:
        with open(a.replay) as f:
            payload = json.load(f)
        eng = importlib.import_module(payload["engine"].lower())
        sys.exit(eng.replay(payload))
    if prop not in ENGINES:
        common.die_machinery(f"no check for {prop}")
    t0 = time.time()
    common.assert_hooks()
    reports = []
    engine_wall = 0.0
    for name in ENGINES[prop]:
        eng = importlib.import_module(name)
        res = eng.run(a.tier, seed)
        engine_wall += float(res.get("wall", 0.0))     # the engine's own run time, also when its result came from the cache
        reports.append((name, eng.report(prop, res)))
    unknown, known_seen, mach = [], {}, []
    for name, rep in reports:
        mach += [f"{name}: {m}" for m in rep["machinery"]]
        for v in rep["violations"]:
            k = common.match_known(prop, name.upper(), v["sig"])
            if k is not None:
                known_seen.setdefault(k["what"], 0)
                known_seen[k["what"]] += 1
            else:
                unknown.append(v)
    for name, rep in reports:
        drift = rep["coverage"].get("conformance_to_Scheduler_tla", {}).get("drift_count")
        if drift:
            common.say(f"MODEL-DRIFT: {drift} scheduler-visible histories of the real code are not behaviours of spec/Scheduler.tla "
                       f"(information, not a verdict; the property-level verdict is unaffected)")
    for what in known_seen:
        common.say(f"KNOWN-FINDING: property={prop} {what}")
    seen_sig = set()
    for v in unknown:
        s = json.dumps(v["sig"], sort_keys=True)
        if s in seen_sig:
            continue
        seen_sig.add(s)
        path = common.write_replay(prop, v["replay"])
        common.say(f"VIOLATION property={prop} replay={path}")
        common.say(f"  {v['what']}")
    # evidence: merge the engines' coverage (first engine is the primary one)
    cov = dict(reports[0][1]["coverage"])
    for name, rep in reports[1:]:
        c = rep["coverage"]
        for k in ("states", "transitions", "traces_validated_against_impl", "evaluations", "distinct_nontrivial"):
            cov[k] = cov.get(k, 0) + c.get(k, 0)
        cov["samples"] = cov.get("samples", []) + c.get("samples", [])
        cov["rule"] = cov.get("rule", "") + " || " + c.get("rule", "")
        cov[name] = {k: v for k, v in c.items() if k not in ("samples", "rule")}
    cov["known_findings_matched"] = known_seen
    cov["machinery_problems"] = mach
    assumptions = [x for _, rep in reports for x in rep["assumptions"]]
    common.write_evidence(prop, a.tier, seed, reports[0][1]["level"], cov, assumptions, max(time.time() - t0, engine_wall), len(unknown))
    if unknown:
        sys.exit(1)
    if mach:
        for m in mach:
            common.say(f"MACHINERY-FAILURE: {m}")
        sys.exit(2)
    common.say(f"OK property={prop} tier={a.tier} seed={seed} wall={time.time() - t0:.1f}s "
               f"evaluations={cov.get('evaluations')} validated={cov.get('traces_validated_against_impl')}")
    sys.exit(0)


if __name__ == "__main__":
    try:
        main()
    except SystemExit:
        raise
    except BaseException as e:  # noqa: BLE001
        # a crash of the machinery is never a verdict: exit 1 is reserved for violations that were named
        import traceback

        traceback.print_exc()
        common.say(f"MACHINERY-FAILURE: {type(e).__name__}: {str(e)[:300]}")
        sys.exit(2)
