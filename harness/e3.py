"""Engine E3: graph algebra - selections (C12), debug rules (C13), compound priority (C07)."""
import concurrent.futures as cf
import hashlib
import json
import os
import random
import subprocess
import time

import common
import tlc

SERVES = ["C07", "C12", "C13"]
HELPS = ["C03", "C11", "C06"]


def _tlc_batches(module, cfg, key, items, wrap, per=4000, par=8, heap="3g"):
    """Run a *Check module over `items` split in batches; returns (mismatches, counts, states, errors)."""
    os.makedirs(common.CACHE, exist_ok=True)
    weights = [max(1, len(x.get("obs", [1]))) for x in items]
    batches, cur, w = [], [], 0
    for it, wt in zip(items, weights):
        cur.append(it)
        w += wt
        if w >= per:
            batches.append(cur)
            cur, w = [], 0
    if cur:
        batches.append(cur)

    def one(ib):
        i, b = ib
        path = os.path.join(common.CACHE, f"{module}-{os.getpid()}-{i}.json")
        with open(path, "w") as f:
            json.dump({key: b}, f)
        try:
            r = tlc.run_tlc(module, cfg, env={"CASE_FILE": path}, workers=1, heap=heap, timeout=3600)
        finally:
            os.remove(path)
        mism, counts = [], {}
        for line in r["out"].splitlines():
            line = line.strip()
            if line.startswith('"MISMATCH '):
                d = json.loads(line[len('"MISMATCH '):-1].encode().decode("unicode_escape"))
                d["batch"] = i
                mism.append(d)
            elif line.startswith('"COUNTS '):
                counts = json.loads(line[len('"COUNTS '):-1].encode().decode("unicode_escape"))
        err = None if tlc.tlc_ok(r) and counts else r["out"][-1500:]
        return i, mism, counts, r.get("distinct", 0), r.get("states", 0), err

    allm, total, states, trans, errs = [], {}, 0, 0, []
    with cf.ThreadPoolExecutor(par) as ex:
        for i, mism, counts, s, t, err in ex.map(one, enumerate(batches)):
            for m in mism:
                m["item"] = batches[i][(m.get("d") or m.get("r")) - 1]
            allm += mism
            for k, v in counts.items():
                total[k] = total.get(k, 0) + v
            states += s
            trans += t
            if err:
                errs.append(err)
    return allm, total, states, trans, errs


def cp_cases(tier, seed):
    import sched_driver as sd

    rng = random.Random(seed + 17)
    cases = []
    sizes = (2, 3, 4) if tier == "quick" else (2, 3, 4, 5)
    for n in sizes:
        shapes = sd.all_shapes(n)
        if n == 5 and tier != "quick":
            shapes = shapes[::2]
        for shape in shapes:
            vecs = [[10 ** k for k in range(n)], [rng.choice([-2, -1, 0, 1, 1, 3]) for _ in range(n)]]
            if tier != "quick" and n <= 4:
                vecs.append([rng.randint(-50, 50) for _ in range(n)])
            for pv in vecs:
                p = list(pv)
                rng.shuffle(p)
                nodes = list(range(1, n + 1))
                conf = sorted(rng.sample(nodes, rng.randint(1, n)))      # only these nodes are reconfigured
                p2 = [rng.choice([-5, 0, 2, 7, 11]) if k in conf else p[k - 1] for k in nodes]
                sels = [(None, None, rng.sample(nodes, rng.randint(1, n))), (None, [rng.choice(nodes)], None),
                        ([k for k in nodes if not shape[k - 1]][:1], None, None)]
                case = {"n": n, "deps": shape, "prio": p, "prio2": p2, "conf": conf, "sels": sels}
                if rng.random() < 0.35:
                    # debug nodes (everything that uses a debug node is one): executors pull them below the selected leaves
                    debug = [False] * n
                    for k in range(n, 0, -1):
                        users = [m for m in nodes if k in shape[m - 1]]
                        if all(debug[m - 1] for m in users) and rng.random() < 0.6:
                            debug[k - 1] = True
                    plain = [k for k in nodes if not debug[k - 1]]
                    if any(debug) and plain:
                        case["debug"] = debug
                        case["sels"] = [(None, None, rng.sample(plain, rng.randint(1, len(plain)))), (None, None, [rng.choice(plain)])] + sels[:1]
                cases.append(case)
    if tier == "quick":
        shapes5 = sd.all_shapes(5)
        for shape in rng.sample(shapes5, 120):
            p = [10 ** k for k in range(5)]
            rng.shuffle(p)
            conf = sorted(rng.sample(range(1, 6), rng.randint(1, 5)))
            cases.append({"n": 5, "deps": shape, "prio": p, "conf": conf,
                          "prio2": [rng.randint(-9, 9) if k in conf else p[k - 1] for k in range(1, 6)],
                          "sels": [(None, None, [rng.randint(1, 5)])]})
    return cases


def run_cp(tier, seed):
    cases = cp_cases(tier, seed)
    seeds = ["0", "1", str(1000 + seed)] if tier == "quick" else [str(x) for x in (0, 1, 2, 3, 5, 8, 13, 21, 34, 55, 89, 144, 1000 + seed, 4242, 99999, 31337)]
    os.makedirs(common.CACHE, exist_ok=True)
    inp = os.path.join(common.CACHE, f"cp-in-{os.getpid()}.json")
    with open(inp, "w") as f:
        json.dump(cases, f)
    rows, errors = [], []

    def one(hs):
        outp = os.path.join(common.CACHE, f"cp-out-{os.getpid()}-{hs}.json")
        env = dict(os.environ, PYTHONHASHSEED=hs, VERIF_REPO=common.REPO)
        p = subprocess.run([common.PY, os.path.join(common.VERIF, "harness", "e3_cp_worker.py"), inp, outp],
                           env=env, capture_output=True, text=True, timeout=3600)
        if p.returncode != 0:
            return [], [p.stderr[-500:]]
        with open(outp) as f:
            r = json.load(f)
        os.remove(outp)
        return r, []

    with cf.ThreadPoolExecutor(8) as ex:
        for r, e in ex.map(one, seeds):
            rows += r
            errors += e
    os.remove(inp)
    bad = [r for r in rows if "error" in r]
    good = [r for r in rows if "error" not in r]
    mism, counts, states, trans, errs = _tlc_batches("CpCheck", "CpCheck.cfg", "rows", good, None, per=3000)
    return {"cases": len(cases), "hash_seeds": seeds, "rows": len(good), "observe_errors": [b["error"] for b in bad][:5] + errors[:3],
            "observe_error_count": len(bad) + len(errors), "mismatches": mism[:40], "mismatch_count": len(mism),
            "counts": counts, "states": states, "transitions": trans, "tlc_errors": errs[:2],
            "samples": [{k: r[k] for k in ("n", "deps", "prio", "cp_build", "order", "hs")} for r in good[:: max(1, len(good) // 3)][:3]]}


def run_sel(tier, seed):
    import e3_driver as ed

    rng = random.Random(seed + 5)
    Ds = ed.dag_space(2, rng, const_mode="all") + ed.dag_space(3, rng)
    if tier == "quick":
        limit = 36
        extra = rng.sample(ed.dag_space(4, rng, with_illegal=False), 160)
        Ds += extra
        Ds += ed.debug_chain_dags(4, rng, 60) + ed.debug_chain_dags(5, rng, 60)
        Ds += ed.nested_dags(rng, 60)
    else:
        Ds += ed.debug_chain_dags(4, rng, 10 ** 6) + ed.debug_chain_dags(5, rng, 1500)
        Ds += ed.nested_dags(rng, 1500)
        limit = 400
        Ds += ed.dag_space(3, rng, const_mode="all", with_illegal=False)[::3]
        Ds += rng.sample(ed.dag_space(4, rng, with_illegal=False), 2500)
    t = time.time()
    recs = ed.run_all(Ds, limit, seed)
    wall_obs = time.time() - t
    mism, counts, states, trans, errs = _tlc_batches("SelCheck", "SelCheck.cfg", "dags", recs, None, per=5000)
    rows = sum(len(r["obs"]) for r in recs)
    samples = []
    for r in recs:
        if len(r["obs"]) > 3 and len(samples) < 3 and rng.random() < 0.05:
            samples.append({"n": r["n"], "deps": r["deps"], "kind": r["kind"], "const": r["const"],
                            "row[mode,pre,R,X,T,bogus | err,g,e,dup,ret,bad (flag off) | ... (flag on)]": r["obs"][len(r["obs"]) // 2]})
    return {"dags": len(Ds), "rows": rows, "unbuilt": sum(1 for r in recs if not r["built"]), "limit_per_dag": limit,
            "observe_wall": round(wall_obs, 1), "mismatches": mism[:60], "mismatch_count": len(mism), "counts": counts,
            "states": states, "transitions": trans, "tlc_errors": errs[:2], "samples": samples or [{"n": recs[0]["n"]}]}


def run(tier, seed, log=common.say):
    key = hashlib.sha256(f"{common.repo_hash()}|{common.machinery_hash()}|{tier}|{seed}".encode()).hexdigest()[:20]
    hit = common.cache_get("E3", key)
    if hit:
        hit["cached"] = True
        return hit
    t0 = time.time()
    with cf.ThreadPoolExecutor(2) as ex:
        fcp = ex.submit(run_cp, tier, seed)
        sel = run_sel(tier, seed)
        cp = fcp.result()
    res = {"engine": "E3", "tier": tier, "seed": seed, "sel": sel, "cp": cp, "wall": round(time.time() - t0, 1)}
    common.cache_put("E3", key, res)
    return res


def _sel_viol(res, prop):
    out = []
    for m in res["sel"]["mismatches"]:
        clauses = sorted(set(m.get("off", [])) | set(m.get("on", [])) | set(m.get("both", [])))
        mine = [c for c in clauses if c.split(".")[0] == prop]
        if not mine:
            continue
        it = m["item"]
        row = it["obs"][m["j"] - 1] if m["j"] > 0 else None
        out.append({"sig": {"clause": mine[0]},
                    "what": f'{mine} on DAG n={it["n"]} deps={it["deps"]} kind={it["kind"]} const={it["const"]} row={row}',
                    "replay": {"engine": "E3", "property": prop, "kind": "sel", "clauses": mine,
                               "dag": {k: it[k] for k in ("n", "deps", "kind", "const", "tags", "setuparg", "idxret", "calltag", "actdep", "plaintag", "nest", "focus") if k in it}, "row": row}})
    return out


def report(prop, res):
    viols, mach = [], []
    sel, cp = res["sel"], res["cp"]
    if prop in ("C07", "C06"):
        for m in cp["mismatches"]:
            mine = [c for c in m["c"] if c.startswith(prop)]
            if mine:
                it = m["item"]
                viols.append({"sig": {"clause": mine[0]},
                              "what": f'{mine} n={it["n"]} deps={it["deps"]} prio={it["prio"]} table={it["cp_build"]} order={it["order"]} hashseed={it["hs"]}',
                              "replay": {"engine": "E3", "property": prop, "kind": "cp", "clauses": mine,
                                         "case": {k: it[k] for k in ("n", "deps", "prio", "prio2")}, "hs": it["hs"], "observed": it}})
    else:
        viols = _sel_viol(res, prop)
    lem = [m for m in sel["mismatches"] if any(c.startswith(("LEMMA", "WF.")) for c in m.get("both", []))]
    lem += [m for m in cp["mismatches"] if any(c.startswith("LEMMA") for c in m["c"])]
    if lem:
        mach.append(f"a lemma of the specification failed: {lem[0]}")
    for part, name in ((sel, "selection"), (cp, "compound priority")):
        if part["tlc_errors"]:
            mach.append(f"TLC failed on the {name} batch: {part['tlc_errors'][0][-500:]}")
    if cp["observe_error_count"]:
        mach.append(f"compound-priority observation errors: {cp['observe_errors'][:2]}")
    if sel["counts"].get("rows", 0) != sel["rows"]:
        mach.append(f'TLC evaluated {sel["counts"].get("rows")} of {sel["rows"]} selection rows')
    if cp["counts"].get("rows", 0) != cp["rows"]:
        mach.append(f'TLC evaluated {cp["counts"].get("rows")} of {cp["rows"]} compound-priority rows')
    if prop in ("C07", "C06"):
        nontriv = cp["counts"].get("diamonds", 0)
        rule = ("rows = (DAG shape, priority vector, PYTHONHASHSEED); observed: table after build, after reconfiguration "
                "(dict / JSON / YAML), tables of executor sub-graphs, mc=1 execution order before and after reconfiguration. "
                "Non-trivial: the shape contains a node reachable from another one by more than one path (diamond)")
        ev, st, tr, samples = cp["rows"], cp["states"], cp["transitions"], cp["samples"]
        exhaustive = False      # all shapes up to the size bound, but chosen priority vectors and hash seeds
        extra = {"cases": cp["cases"], "hash_seeds": cp["hash_seeds"], "counts": cp["counts"]}
    else:
        nontriv = {"C12": sel["counts"].get("rxt", 0), "C13": sel["counts"].get("debugran", 0),
                   "C03": sel["counts"].get("rows", 0), "C11": sel["counts"].get("setupmode", 0)}[prop]
        rule = ("rows = (DAG shape x node kinds x constant arguments, mode executor / setup / call, precomputed setup nodes, "
                "R, X, T through id / reference / tag aliases), each run with RUN_DEBUG_NODES off and on; observed: error class, "
                "entered nodes, double entries, non-None return positions, wrong values. Non-trivial: "
                + {"C12": "R, X and T all given", "C13": "a debug node executed with the flag on",
                   "C03": "every row (entry counters)", "C11": "setup(...) with a selection"}[prop])
        ev, st, tr, samples = sel["rows"], sel["states"], sel["transitions"], sel["samples"]
        exhaustive = False
        extra = {"dags": sel["dags"], "rows": sel["rows"], "limit_per_dag": sel["limit_per_dag"], "counts": sel["counts"]}
    if nontriv < 2:
        mach.append(f"vacuous: {nontriv} non-trivial rows for {prop}")
    cov = {"states": st, "transitions": tr, "traces_validated_against_impl": ev, "evaluations": ev,
           "distinct_nontrivial": nontriv, "rule": rule, "samples": samples, "exhaustive": exhaustive,
           "engine_cached": bool(res.get("cached")), **extra}
    assumptions = ["node entries are reported by the node_enter hook", "TLC evaluates Selection.tla / CompoundPriority.tla on every observed row (one state per row)",
                   "sizes: shapes up to 4 nodes (selection) / 5 nodes (compound priority); larger DAGs are not explored"]
    return {"violations": viols, "machinery": mach, "coverage": cov, "assumptions": assumptions, "level": "model_checking"}


def replay(payload, log=common.say):
    import e3_driver as ed

    if payload["kind"] == "cp":
        os.makedirs(common.CACHE, exist_ok=True)
        inp = os.path.join(common.CACHE, f"cp-replay-{os.getpid()}.json")
        outp = inp + ".out"
        case = dict(payload["case"], sels=[])
        origin = payload.get("observed", {}).get("origin")
        if origin:          # the row came from a DAG obtained through compose(): compose it again
            case = dict(origin["case"], sels=[], conf=[], replay_composed_idx=origin["idx"])
        with open(inp, "w") as f:
            json.dump([case], f)
        subprocess.run([common.PY, os.path.join(common.VERIF, "harness", "e3_cp_worker.py"), inp, outp],
                       env=dict(os.environ, PYTHONHASHSEED=str(payload["hs"]), VERIF_REPO=common.REPO), check=True)
        rows = json.load(open(outp))
        os.remove(inp)
        os.remove(outp)
        mism, counts, _, _, errs = _tlc_batches("CpCheck", "CpCheck.cfg", "rows", rows, None)
        log(f"observed: {rows[0]}")
    else:
        D = payload["dag"]
        row = payload["row"]
        n = D["n"]
        unmask = lambda m: None if m == -1 else [k for k in range(1, n + 1) if m >> (k - 1) & 1]  # noqa: E731
        rec = {"n": n, "deps": D["deps"], "kind": D["kind"], "const": D["const"], "obs": [], "als": [], "built": True, "setuparg": D.get("setuparg", 0),
               "tagseq": [D.get("tags", {}).get(str(k), []) for k in range(1, n + 1)], "actdep": D.get("actdep") or [0, 0]}
        try:
            base, ids, xs = ed.build(D)
        except BaseException as e:  # noqa: BLE001
            rec["built"] = False
            log(f"build failed: {e!r}")
        if rec["built"] and row is not None:
            for s in range(4):
                off = ed.observe(D, base, ids, xs, row[0], row[1], unmask(row[2]), unmask(row[3]), unmask(row[4]), row[5], 0, random.Random(s), ("id", "ref", "tag", "grp"))
                on = ed.observe(D, base, ids, xs, row[0], row[1], unmask(row[2]), unmask(row[3]), unmask(row[4]), row[5], 1, random.Random(s), ("id", "ref", "tag", "grp"))
                rec["obs"].append(row[:6] + off + on)
                rec["als"].append(ed.observe.aliases)
        mism, counts, _, _, errs = _tlc_batches("SelCheck", "SelCheck.cfg", "dags", [rec], None)
        log(f"observed rows: {rec['obs']}")
    if errs:
        log("MACHINERY-FAILURE: " + errs[0][-400:])
        return 2
    hit = False
    for m in mism:
        cl = m.get("c") or (m.get("off", []) + m.get("on", []) + m.get("both", []))
        log(f"  clauses: {cl}")
        hit = hit or any(c.split(".")[0] == payload["property"] for c in cl)
    log("replay: " + ("property violated again" if hit else "no violation of this property on the current tree"))
    return 1 if hit else 0
