"""Engine E4: life-cycle histories of DAG instances, executors and cache files (C11, C15, C18; C03 histories)."""
import concurrent.futures as cf
import hashlib
import json
import os
import random
import time

import common
import tlc

SERVES = ["C11", "C15", "C18"]


def plan(tier, seed):
    import e4_driver as ed

    rng = random.Random(seed + 23)
    jobs = []
    for d, D in enumerate(ed.TEMPLATES):
        A = ed.alphabet(D, rng)
        if tier == "quick":
            words = [[a] for a in A] + [[a, b] for a in A for b in A][::2]
            words += ed.histories(D, rng, 5, 450)
            words += ed.histories(D, rng, 8, 60)
        else:
            words = [[a] for a in A] + [[a, b] for a in A for b in A]
            words += [[a, b, c] for a in A for b in A for c in A][::5]
            words += ed.histories(D, rng, 5, 4000)
            words += ed.histories(D, rng, 9, 1000)
        sc = ed.scenarios(D, rng)
        words += sc if tier != "quick" else rng.sample(sc, min(len(sc), 150))
        for w in words:
            is_async = rng.random() < 0.25
            jobs.append((d, w, is_async, "async" if rng.random() < 0.5 else "thread"))
    return jobs


def validate(traces, dags, batch=1500, par=8):
    os.makedirs(common.CACHE, exist_ok=True)
    batches = [traces[i:i + batch] for i in range(0, len(traces), batch)]

    def one(ib):
        i, b = ib
        path = os.path.join(common.CACHE, f"e4-traces-{os.getpid()}-{i}.json")
        with open(path, "w") as f:
            json.dump({"dags": dags, "traces": [{"tid": t["tid"], "d": t["d"], "ev": t["ev"]} for t in b]}, f)
        try:
            r = tlc.run_tlc("LifecycleTrace", "LifecycleTrace.cfg", env={"TRACE_FILE": path}, workers=1, heap="3g", timeout=3600)
        finally:
            os.remove(path)
        v = tlc.verdicts(r["out"])
        err = None if len(v) == len(b) and tlc.tlc_ok(r) else r["out"][-1500:]
        return v, r.get("distinct", 0), r.get("states", 0), err

    verdicts, states, trans, errs = {}, 0, 0, []
    with cf.ThreadPoolExecutor(par) as ex:
        for v, s, t, err in ex.map(one, enumerate(batches)):
            verdicts.update(v)
            states += s
            trans += t
            if err:
                errs.append(err)
    return verdicts, states, trans, errs


def run(tier, seed, log=common.say):
    import e4_driver as ed

    key = hashlib.sha256(f"{common.repo_hash()}|{common.machinery_hash()}|{tier}|{seed}".encode()).hexdigest()[:20]
    hit = common.cache_get("E4", key)
    if hit:
        hit["cached"] = True
        return hit
    t0 = time.time()
    jobs = plan(tier, seed)
    res = ed.run_all(jobs)
    herr = [r for r in res if any(e["op"] == "harness-error" for e in r["ev"])]
    skipped = sum(1 for r in res if r.get("skipped"))
    seen = {}
    for r in res:
        if not r["ev"] or r in herr:
            continue
        k = hashlib.sha1(json.dumps([r["d"], r["ev"]], sort_keys=True).encode()).hexdigest()
        seen.setdefault(k, r)
    traces = list(seen.values())
    for i, t in enumerate(traces):
        t["tid"] = i + 1
    verdicts, states, trans, errs = validate(traces, ed.TEMPLATES)
    # (M) all histories of the implementation-shaped life-cycle machine up to a length bound
    os.makedirs(common.CACHE, exist_ok=True)
    mcfg = os.path.join(common.CACHE, "LifecycleMC-run.cfg")
    with open(mcfg, "w") as f:
        f.write(f"CONSTANTS\n MaxOps = {5 if tier == 'quick' else 6}\n NI = 2\n NX = 2\n NF = 1\nSPECIFICATION Spec\n"
                "INVARIANT SetupOnce\nINVARIANT StoredIsSetup\nINVARIANT NoRecompute\nPROPERTY StartedStays\nCHECK_DEADLOCK FALSE\n")
    mr = tlc.run_tlc("LifecycleMC", mcfg, workers=6, heap="6g", timeout=7200)
    model = {"ok": "No error has been found" in mr["out"], "states": mr.get("distinct", 0), "transitions": mr.get("states", 0),
             "max_ops": 5 if tier == "quick" else 6, "tail": "" if "No error has been found" in mr["out"] else mr["out"][-800:]}
    counters, viol_counts, viols, kept = {}, {}, [], {}
    for t in traces:
        v = verdicts.get(t["tid"])
        if v is None:
            continue
        for k, val in v["cnt"].items():
            if val:
                counters[k] = counters.get(k, 0) + 1
        for x in v["viol"]:
            viol_counts[x["c"]] = viol_counts.get(x["c"], 0) + 1
            if kept.get(x["c"], 0) < 4:
                kept[x["c"]] = kept.get(x["c"], 0) + 1
                viols.append({"clause": x["c"], "i": x["i"], "d": t["d"], "ops": t["ops"], "async": t["async"], "sres": t.get("sres", "thread"), "ev": t["ev"]})
    out = {"engine": "E4", "tier": tier, "seed": seed, "histories": len(jobs), "distinct_traces": len(traces),
           "events": sum(len(t["ev"]) for t in traces), "skipped_after_hang": skipped, "harness_errors": [h["ev"][-1] for h in herr][:5],
           "harness_error_count": len(herr), "validated": len(verdicts), "states": states, "transitions": trans,
           "tlc_errors": errs[:2], "model": model, "counters": counters, "viol_counts": viol_counts, "violations": viols,
           "samples": [{"template": ed.TEMPLATES[t["d"] - 1]["name"], "async": t["async"],
                        "events": [{k: e[k] for k in ("op", "i", "x", "f", "t", "dep", "args", "out", "e", "keys", "cached", "fresh")} for e in t["ev"]]}
                       for t in traces[:: max(1, len(traces) // 3)][:3]],
           "wall": round(time.time() - t0, 1)}
    common.cache_put("E4", key, out)
    return out


NONTRIVIAL = {"C09": "ops", "C17": "ops", "C11": "setupskip", "C15": "reuse", "C18": "restart", "C03": "ops", "C12": "ops", "C14": "failed", "C19": "ops", "C01": "defaults"}
RULE = {"C09": "all histories (every operation must return or raise)", "C17": "all histories",
        "C11": "histories in which an execution found setup values already computed on its instance",
        "C15": "histories in which an executor object was run a second time",
        "C18": "histories with a restart from a cache file",
        "C03": "all histories", "C12": "all histories", "C14": "histories with a failing call", "C19": "all histories",
        "C01": "histories with a call that omits defaulted arguments"}


def report(prop, res):
    viols = []
    for v in res["violations"]:
        if v["clause"].split(".")[0] != prop:
            continue
        e = v["ev"][v["i"] - 1]
        viols.append({"sig": {"clause": v["clause"]},
                      "what": f'{v["clause"]} at operation {v["i"]} ({e["op"]}) of history {[o[0] for o in v["ops"]]} on template {v["d"]}; '
                              f'{res["viol_counts"][v["clause"]]} such events in this run',
                      "replay": {"engine": "E4", "property": prop, "clause": v["clause"], "d": v["d"], "ops": v["ops"],
                                 "async": v["async"], "sres": v.get("sres", "thread"), "observed": v["ev"]}})
    mach = []
    wf = {k: n for k, n in res["viol_counts"].items() if k.startswith("WF.")}
    if wf:
        mach.append(f"ill-formed histories: {wf}")
    if res["tlc_errors"]:
        mach.append("TLC failed: " + res["tlc_errors"][0][-500:])
    if not res["model"]["ok"]:
        mach.append("LifecycleMC failed: " + res["model"]["tail"][-400:])
    if res["validated"] != res["distinct_traces"]:
        mach.append(f'validated {res["validated"]} of {res["distinct_traces"]} histories')
    if res["harness_error_count"]:
        mach.append(f'harness errors: {res["harness_errors"][:2]}')
    nontriv = res["counters"].get(NONTRIVIAL[prop], 0)
    if nontriv < 2:
        mach.append(f"vacuous: {nontriv} non-trivial histories for {prop}")
    cov = {"states": res["states"] + res["model"]["states"], "transitions": res["transitions"] + res["model"]["transitions"],
           "model_run": {k: res["model"][k] for k in ("ok", "states", "transitions", "max_ops")}, "traces_validated_against_impl": res["validated"],
           "evaluations": res["histories"], "distinct_nontrivial": nontriv,
           "rule": "histories = words over an operation alphabet (calls with full / defaulted / other / failing arguments, setup with and "
                   "without targets, executor creation with target / exclude / none, executor runs and re-runs, deep copy and calls on the copy, "
                   "compose + run, config reload, caching runs with cache_deps_of / whole DAG, restarts from the cache with several selections) on three "
                   "template DAGs (independent setup nodes, chained setup nodes, plain pipeline with defaulted parameters), sync and async; all words "
                   "of length <= 2 (sampled in the quick tier) plus random longer ones. Non-trivial: " + RULE[prop],
           "samples": res["samples"][:2], "exhaustive": False, "events": res["events"], "antecedent_counters": res["counters"],
           "violation_counts": {k: n for k, n in res["viol_counts"].items() if k.startswith(prop)},
           "engine_cached": bool(res.get("cached"))}
    assumptions = ["node entries come from the node_enter hook; setup values carry a global execution counter so that re-execution is visible",
                   "the value of an operation is compared with a freshly built DAG (the property's own definition) by the harness; which nodes must run, "
                   "which keys the DAG-level results hold and what a cache file contains is decided by spec/Lifecycle.tla, evaluated by TLC on every step",
                   "three template DAGs, histories up to length ~9"]
    return {"violations": viols, "machinery": mach, "coverage": cov, "assumptions": assumptions, "level": "model_checking"}


def replay(payload, log=common.say):
    import e4_driver as ed

    ev = ed.run_history(ed.TEMPLATES[payload["d"] - 1], payload["ops"], payload.get("async", False), payload.get("sres", "thread"))
    traces = [{"tid": 1, "d": payload["d"], "ev": ev}]
    verdicts, _, _, errs = validate(traces, ed.TEMPLATES)
    if errs:
        log("MACHINERY-FAILURE: " + errs[0][-400:])
        return 2
    hit = False
    for x in verdicts[1]["viol"]:
        log(f'  operation {x["i"]} ({ev[x["i"] - 1]["op"]}): {x["c"]}')
        hit = hit or x["c"].split(".")[0] == payload["property"]
    log("replay: " + ("property violated again" if hit else "no violation of this property on the current tree"))
    return 1 if hit else 0
