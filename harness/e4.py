"""Engine E4: life-cycle histories of DAG instances, executors and cache files (C11, C15, C18; C03 histories)."""
import concurrent.futures as cf
import hashlib
import json
import os
import random
import time

import common
import tlc

SERVES = ["C11", "C15", "C18"]


def plan(tier, seed):
    import e4_driver as ed

    rng = random.Random(seed + 23)
    jobs = []
    for d, D in enumerate(ed.TEMPLATES):
        A = ed.alphabet(D, rng)
        if tier == "quick":
            words = [[a] for a in A] + [[a, b] for a in A for b in A][::2]
            words += ed.histories(D, rng, 5, 450)
            words += ed.histories(D, rng, 8, 60)
        else:
            words = [[a] for a in A] + [[a, b] for a in A for b in A]
            words += [[a, b, c] for a in A for b in A for c in A][::5]
            words += ed.histories(D, rng, 5, 4000)
            words += ed.histories(D, rng, 9, 1000)
        sc = ed.scenarios(D, rng)
        words += sc if tier != "quick" else rng.sample(sc, min(len(sc), 150))
        for w in words:
            is_async = rng.random() < 0.25
            jobs.append((d, w, is_async, "async" if rng.random() < 0.5 else "thread"))
        if any(dv == -1 for dv in D["defaults"]):
            # an executor run that leaves out a required argument fails inside the scheduler (after other nodes may have run):
            # the executor is used up like after any failed run - a second run is refused or starts from scratch
            full = [10 + p for p in range(D["np"])]
            missing = [-1] * D["np"]
            leaf = max(k for k in range(1, D["n"] + 1) if D["kind"][k - 1] != "setup")
            for is_async in (False, True):
                for pre in ([], [("config", 1, {leaf: 9}, 1)], [("config", 1, {leaf - 1: 9}, 1)], [("setup", 1, -1, -1, -1)] if any(k == "setup" for k in D["kind"]) else []):
                    if pre == [] or pre:
                        jobs.append((d, list(pre) + [("exnew", 1, 1), ("exrun", 1, missing), ("exrun", 1, full), ("call", 1, full)], is_async, "thread"))
                jobs.append((d, [("call", 1, missing), ("call", 1, full)], is_async, "thread"))
        roots = [k for k in range(1, D["n"] + 1) if not D["deps"][k - 1] and not D["const"][k - 1] and not D["argof"][k - 1]]
        if roots:
            # a caching run that leaves the last node out, then restarts that start at a root: the node that is re-run takes
            # its other inputs from the file
            full = [10 + p for p in range(D["np"])]
            m = lambda S: sum(1 << (k - 1) for k in S)  # noqa: E731
            last = D["n"]
            for r in roots[:2]:
                for is_async in (False, True):
                    jobs.append((d, [("exnew", 1, 3, -1, -1, -1, m([last]), 1), ("exrun", 3, full, 1), ("restart", 1, 1, m([r])), ("call", 1, full)], is_async, "thread"))
        # cache_deps_of naming SEVERAL nodes, one of which may depend on another: the file holds what they depend on and none
        # of their own results (CacheDepsContent of Lifecycle.tla is a set operation), and a restart executes them all
        nonsetup = [k for k in range(1, D["n"] + 1) if D["kind"][k - 1] != "setup"]
        if len(nonsetup) >= 2:
            full = [10 + p for p in range(D["np"])]
            m = lambda S: sum(1 << (k - 1) for k in S)  # noqa: E731
            pairs = [(a, b) for a in nonsetup for b in nonsetup if a < b]
            for (a, b) in pairs[:8]:
                for is_async in (False, True):
                    jobs.append((d, [("exnew", 1, 3, -1, -1, -1, m([a, b]), 1), ("exrun", 3, full, 1), ("restart", 1, 1), ("restart", 1, 1, -1, -1, -1, m([a, b])),
                                     ("call", 1, full)], is_async, "thread"))
        if any(k == "setup" for k in D["kind"]) and len(nonsetup) >= 1:
            # setup() of an executor built with cache_deps_of, then its run, then a call of the DAG: on both flavours
            full = [10 + p for p in range(D["np"])]
            m = lambda S: sum(1 << (k - 1) for k in S)  # noqa: E731
            for k in nonsetup[:4]:
                for is_async in (False, True):
                    jobs.append((d, [("exnew", 1, 3, -1, -1, -1, m([k]), 1), ("exsetup", 3), ("exrun", 3, full, 1), ("call", 1, full)], is_async, "thread"))
                    jobs.append((d, [("exnew", 1, 3, -1, -1, -1, m([k]), 1), ("exsetup", 3), ("call", 1, full)], is_async, "thread"))
        readers = [k for k in range(1, D["n"] + 1) if D["argof"][k - 1]]
        if readers:
            # a caching run that leaves a node that reads a DAG input (and what depends on it) out of the file, then a restart
            # called with other arguments: the node is executed with the arguments of the restart
            full = [10 + p for p in range(D["np"])]
            m = lambda S: sum(1 << (k - 1) for k in S)  # noqa: E731
            for k in readers[:3]:
                for is_async in (False, True):
                    jobs.append((d, [("exnew", 1, 3, -1, -1, -1, m([k]), 1), ("exrun", 3, full, 1), ("restart", 1, 1, -1, -1, -1, -1, 1), ("call", 1, full)], is_async, "thread"))
                    jobs.append((d, [("exnew", 1, 3, -1, -1, -1, m([k]), 1), ("exrun", 3, full, 1), ("restart", 1, 1, -1, -1, -1, m([k]), 1)], is_async, "thread"))
        if any(k == "setup" for k in D["kind"]):
            # a restart on an instance that has computed nothing yet (a copy made before the caching run): the setup results
            # the restart takes from the file are results of that instance from then on, in both flavours - the call that
            # follows executes no setup node
            full = [10 + p for p in range(D["np"])]
            for is_async in (False, True):
                for tail in ([("call", 2, full)], [("setup", 2, -1, -1, -1), ("call", 2, full)], [("exnew", 2, 2), ("exrun", 2, full)]):
                    jobs.append((d, [("copy", 1, 2), ("exnew", 1, 3, -1, -1, -1, -1, 1), ("exrun", 3, full, 1), ("restart", 2, 1)] + tail, is_async, "thread"))
        if any(k == "setup" for k in D["kind"]):
            # a setup() that fails (its first setup node raises), then the instance is set up and called as usual
            full = [10 + p for p in range(D["np"])]
            for is_async in (False, True):
                for sres in ("thread", "async"):
                    jobs.append((d, [("setupfail", 1), ("setup", 1, -1, -1, -1), ("call", 1, full)], is_async, sres))
                    jobs.append((d, [("setupfail", 1), ("exnew", 1, 1), ("exsetup", 1), ("exrun", 1, full)], is_async, sres))
                    jobs.append((d, [("setup", 1, -1, -1, -1), ("setupfail", 1), ("call", 1, full)], is_async, sres))
        if any(k == "setup" for k in D["kind"]):
            # setup() of two instances at the same time, in every flavour (gathered awaits / two threads; thread / async-thread
            # setup nodes), before and after one of them has run
            full = [10 + p for p in range(D["np"])]
            for pre in ([], [("call", 1, full)], [("setup", 1, -1, -1, -1)]):
                for is_async in (False, True):
                    for sres in ("thread", "async"):
                        jobs.append((d, pre + [("copy", 1, 2), ("gsetup", 1, 2), ("call", 1, full), ("call", 2, full)], is_async, sres))
    return jobs


def attach_twins(res):
    """C17: where the same history was run on both flavours (the deterministic jobs are), every event of the AsyncDAG history
    carries what the DAG history did at that operation (tw = [out, executed, stored keys]); LifecycleTrace.tla compares."""
    sync = {}
    for r in res:
        if not r["async"] and r["ev"] and not any(e["op"] == "harness-error" for e in r["ev"]):
            sync.setdefault((r["d"], json.dumps(r["ops"], sort_keys=True), r.get("sres", "thread")), r)
    for r in res:
        twin = sync.get((r["d"], json.dumps(r["ops"], sort_keys=True), r.get("sres", "thread"))) if r["async"] else None
        same = twin is not None and len(twin["ev"]) == len(r["ev"]) and all(a["op"] == b["op"] for a, b in zip(twin["ev"], r["ev"]))
        for k, e in enumerate(r["ev"]):
            if e["op"] == "harness-error":
                continue
            t = twin["ev"][k] if same else None
            e["tw"] = [t["out"], t["e"], t["keys"]] if t is not None else [-9, 0, 0]


def model_histories(tier, seed):
    """Specification -> code: behaviours of LifecycleMC.tla generated by TLC in simulation mode (spec/LifecycleHist.tla), as
    lists of operation records [op, i, j, x, S, T, f, fc, ok, runs]."""
    hs, states, errs = {}, 0, []
    num, seeds = (250, (seed + 1, seed + 2)) if tier == "quick" else (4000, (seed + 1, seed + 2, seed + 3, seed + 4))

    def one(sd):
        return tlc.run_tlc("LifecycleHist", "LifecycleHist.cfg", simulate=f"num={num}", depth=9, extra=("-seed", str(sd)), workers=1, heap="2g", timeout=3600)
    with cf.ThreadPoolExecutor(4) as ex:
        for r in ex.map(one, seeds):
            if "Error" in r["out"] and "HIST" not in r["out"]:
                errs.append(r["out"][-800:])
            states += r.get("states", 0) or 0
            for line in r["out"].splitlines():
                line = line.strip()
                if line.startswith('"HIST '):
                    h = json.loads(line[6:-1].encode().decode("unicode_escape"))
                    hs.setdefault(json.dumps(h, sort_keys=True), h)
    return list(hs.values()), states, errs


def model_ops(h):
    """The operations of engine E4's driver (template T2 'chain') for a history of the model."""
    mask = lambda S: sum(1 << (k - 1) for k in S)  # noqa: E731
    ops = []
    for r in h:
        S = r["S"]
        t = -1 if len(S) == 6 or not S else mask([max(S)])
        if r["op"] == "call":
            args = [10, 11]
            if not r["ok"]:
                args[0 if 3 in r["runs"] else 1] = 99
            ops.append(("call", r["i"], args))
        elif r["op"] == "setup":
            T = r["T"]
            ops.append(("setup", r["i"], -1, -1, -1 if T == [-1] else mask(T)))
        elif r["op"] == "copy":
            ops.append(("copy", r["i"], r["j"]))
        elif r["op"] == "exnew":
            ops.append(("exnew", r["i"], r["x"], -1, -1, t, -1, r["f"], r["fc"]))
        else:       # exrun / exrun-refused
            args = [10, 11]
            if r["op"] == "exrun" and not r["ok"]:
                args[0 if 3 in r["runs"] else 1] = 99
            ops.append(("exrun", r["x"], args))
    return ops


def model_compare(h, rec):
    """Executed sets the model predicts against what the real library executed; returns a list of differences."""
    if len(rec["ev"]) != len(h):
        return [f'{len(rec["ev"])} events for {len(h)} operations of the model']
    out = []
    for k, (r, e) in enumerate(zip(h, rec["ev"]), 1):
        got = {j for j in range(1, 7) if e["e"] >> (j - 1) & 1}
        want = set(r["runs"])
        if r["op"] == "exrun-refused":
            if not (e["out"] == 2 and not got):
                out.append(f'operation {k}: a started executor must refuse to run again (out={e["out"]}, executed {sorted(got)})')
        elif r["op"] in ("call", "setup", "exrun"):
            if r["ok"] and (e["out"] != 0 or got != want):
                out.append(f'operation {k} ({r["op"]}): out={e["out"]} executed {sorted(got)}, the model executes {sorted(want)}')
            if not r["ok"] and (e["out"] == 0 or not got <= want):
                out.append(f'operation {k} ({r["op"]}, failing): out={e["out"]} executed {sorted(got)}, the model allows a part of {sorted(want)}')
        elif e["out"] != 0 or got:
            out.append(f'operation {k} ({r["op"]}): out={e["out"]} executed {sorted(got)}')
    return out


def validate(traces, dags, batch=1500, par=8):
    os.makedirs(common.CACHE, exist_ok=True)
    batches = [traces[i:i + batch] for i in range(0, len(traces), batch)]

    def one(ib):
        i, b = ib
        path = os.path.join(common.CACHE, f"e4-traces-{os.getpid()}-{i}.json")
        with open(path, "w") as f:
            json.dump({"dags": dags, "traces": [{"tid": t["tid"], "d": t["d"], "ev": t["ev"]} for t in b]}, f)
        try:
            r = tlc.run_tlc("LifecycleTrace", "LifecycleTrace.cfg", env={"TRACE_FILE": path}, workers=1, heap="3g", timeout=3600)
        finally:
            os.remove(path)
        v = tlc.verdicts(r["out"])
        err = None if len(v) == len(b) and tlc.tlc_ok(r) else r["out"][-1500:]
        return v, r.get("distinct", 0), r.get("states", 0), err

    verdicts, states, trans, errs = {}, 0, 0, []
    with cf.ThreadPoolExecutor(par) as ex:
        for v, s, t, err in ex.map(one, enumerate(batches)):
            verdicts.update(v)
            states += s
            trans += t
            if err:
                errs.append(err)
    return verdicts, states, trans, errs


def run(tier, seed, log=common.say):
    import e4_driver as ed

    key = hashlib.sha256(f"{common.repo_hash()}|{common.machinery_hash()}|{tier}|{seed}".encode()).hexdigest()[:20]
    hit = common.cache_get("E4", key)
    if hit:
        hit["cached"] = True
        return hit
    t0 = time.time()
    jobs = plan(tier, seed)
    mh, mstates, merrs = model_histories(tier, seed)
    rng = random.Random(seed + 99)
    cap = 400 if tier == "quick" else 12000
    if len(mh) > cap:
        mh = rng.sample(mh, cap)
    mjobs = [(1, model_ops(h), rng.random() < 0.25, "async" if rng.random() < 0.5 else "thread") for h in mh]     # template T2
    res = ed.run_all(jobs + mjobs)
    mres = res[len(jobs):]
    drift = []
    for h, rec in zip(mh, mres):
        if rec.get("skipped") or any(e["op"] == "harness-error" for e in rec["ev"]):
            continue
        d = model_compare(h, rec)
        if d:
            drift.append({"history": [[r["op"], r["i"], r["x"], r["S"], r["f"], r["fc"], r["ok"]] for r in h], "async": rec["async"], "differences": d[:3]})
    herr = [r for r in res if any(e["op"] == "harness-error" for e in r["ev"])]
    skipped = sum(1 for r in res if r.get("skipped"))
    attach_twins(res)
    seen = {}
    for r in res:
        if not r["ev"] or r in herr:
            continue
        k = hashlib.sha1(json.dumps([r["d"], r["ev"]], sort_keys=True).encode()).hexdigest()
        seen.setdefault(k, r)
    traces = list(seen.values())
    for i, t in enumerate(traces):
        t["tid"] = i + 1
    verdicts, states, trans, errs = validate(traces, ed.TEMPLATES)
    # (M) all histories of the implementation-shaped life-cycle machine up to a length bound
    os.makedirs(common.CACHE, exist_ok=True)
    mcfg = os.path.join(common.CACHE, "LifecycleMC-run.cfg")
    with open(mcfg, "w") as f:
        f.write(f"CONSTANTS\n MaxOps = {5 if tier == 'quick' else 6}\n NI = 2\n NX = 2\n NF = 1\nSPECIFICATION Spec\n"
                "INVARIANT SetupOnce\nINVARIANT StoredIsSetup\nINVARIANT NoRecompute\nPROPERTY StartedStays\nCHECK_DEADLOCK FALSE\n")
    mr = tlc.run_tlc("LifecycleMC", mcfg, workers=6, heap="6g", timeout=7200)
    model = {"ok": "No error has been found" in mr["out"], "states": mr.get("distinct", 0), "transitions": mr.get("states", 0),
             "max_ops": 5 if tier == "quick" else 6, "tail": "" if "No error has been found" in mr["out"] else mr["out"][-800:]}
    counters, viol_counts, viols, kept = {}, {}, [], {}
    for t in traces:
        v = verdicts.get(t["tid"])
        if v is None:
            continue
        for k, val in v["cnt"].items():
            if val:
                counters[k] = counters.get(k, 0) + 1
        for x in v["viol"]:
            viol_counts[x["c"]] = viol_counts.get(x["c"], 0) + 1
            if kept.get(x["c"], 0) < 4:
                kept[x["c"]] = kept.get(x["c"], 0) + 1
                viols.append({"clause": x["c"], "i": x["i"], "d": t["d"], "ops": t["ops"], "async": t["async"], "sres": t.get("sres", "thread"), "ev": t["ev"]})
    wedged = [r for r in res if r.get("wedged")]
    if wedged:
        viol_counts["C09.hang"] = viol_counts.get("C09.hang", 0) + 1
        viols.append({"clause": "C09.hang", "i": 1, "d": wedged[0]["d"], "ops": wedged[0]["ops"], "async": wedged[0]["async"], "sres": wedged[0].get("sres", "thread"),
                      "ev": [{"op": "one of %d histories run together, the first of which is given" % len(wedged)}], "wedged": [[w["d"], w["ops"], w["async"]] for w in wedged[:30]]})
    out = {"engine": "E4", "tier": tier, "seed": seed, "histories": len(jobs), "distinct_traces": len(traces),
           "events": sum(len(t["ev"]) for t in traces), "skipped_after_hang": skipped, "harness_errors": [h["ev"][-1] for h in herr][:5],
           "harness_error_count": len(herr), "validated": len(verdicts), "states": states, "transitions": trans,
           "tlc_errors": (errs + merrs)[:2], "model": model,
           "model_replay": {"histories": len(mh), "operations": sum(len(h) for h in mh), "drift_count": len(drift), "drift": drift[:3], "states": mstates}, "counters": counters, "viol_counts": viol_counts, "violations": viols,
           "samples": [{"template": ed.TEMPLATES[t["d"] - 1]["name"], "async": t["async"],
                        "events": [{k: e[k] for k in ("op", "i", "x", "f", "t", "dep", "args", "out", "e", "keys", "cached", "fresh")} for e in t["ev"]]}
                       for t in traces[:: max(1, len(traces) // 3)][:3]],
           "wall": round(time.time() - t0, 1)}
    common.cache_put("E4", key, out)
    return out


NONTRIVIAL = {"C09": "ops", "C17": "twin", "C11": "setupskip", "C15": "reuse", "C18": "restart", "C03": "ops", "C12": "ops", "C14": "failed", "C19": "ops", "C01": "defaults", "C02": "altrestart"}
RULE = {"C02": "restarts from a cache file called with other arguments than the run that wrote it, in which a node that reads a DAG input was executed",
        "C09": "all histories (every operation must return or raise)", "C17": "operations of AsyncDAG histories whose twin history on the DAG built from the same function was run too (outcome, executed nodes and stored results compared operation by operation)",
        "C11": "histories in which an execution found setup values already computed on its instance",
        "C15": "histories in which an executor object was run a second time",
        "C18": "histories with a restart from a cache file",
        "C03": "all histories", "C12": "all histories", "C14": "histories with a failing call", "C19": "all histories",
        "C01": "histories with a call that omits defaulted arguments"}


def report(prop, res):
    viols = []
    for v in res["violations"]:
        if v["clause"].split(".")[0] != prop:
            continue
        e = v["ev"][v["i"] - 1]
        if v.get("wedged"):
            viols.append({"sig": {"clause": v["clause"]},
                          "what": f'{v["clause"]}: an operation of one of {len(v["wedged"])} histories run in one worker process never returned, and the '
                                  "time-out raised in it did not end it (the process was killed)",
                          "replay": {"engine": "E4", "property": prop, "clause": v["clause"], "wedged": v["wedged"]}})
            continue
        viols.append({"sig": {"clause": v["clause"]},
                      "what": f'{v["clause"]} at operation {v["i"]} ({e["op"]}) of history {[o[0] for o in v["ops"]]} on template {v["d"]}; '
                              f'{res["viol_counts"][v["clause"]]} such events in this run',
                      "replay": {"engine": "E4", "property": prop, "clause": v["clause"], "d": v["d"], "ops": v["ops"],
                                 "async": v["async"], "sres": v.get("sres", "thread"), "observed": v["ev"]}})
    mach = []
    wf = {k: n for k, n in res["viol_counts"].items() if k.startswith("WF.")}
    if wf:
        mach.append(f"ill-formed histories: {wf}")
    if res["tlc_errors"]:
        mach.append("TLC failed: " + res["tlc_errors"][0][-500:])
    if not res["model"]["ok"]:
        mach.append("LifecycleMC failed: " + res["model"]["tail"][-400:])
    if res["validated"] != res["distinct_traces"]:
        mach.append(f'validated {res["validated"]} of {res["distinct_traces"]} histories')
    if res["harness_error_count"]:
        mach.append(f'harness errors: {res["harness_errors"][:2]}')
    if res.get("skipped_after_hang") and not viols:
        mach.append(f'{res["skipped_after_hang"]} histories were not run because operations kept hanging (C09): no verdict for {prop} on what was left out')
    nontriv = res["counters"].get(NONTRIVIAL[prop], 0)
    if nontriv < 2:
        mach.append(f"vacuous: {nontriv} non-trivial histories for {prop}")
    cov = {"states": res["states"] + res["model"]["states"], "transitions": res["transitions"] + res["model"]["transitions"],
           "model_run": {k: res["model"][k] for k in ("ok", "states", "transitions", "max_ops")}, "traces_validated_against_impl": res["validated"],
           "evaluations": res["histories"], "distinct_nontrivial": nontriv,
           "rule": "histories = words over an operation alphabet (calls with full / defaulted / other / failing arguments, setup with and "
                   "without targets, executor creation with target / exclude / none, executor runs and re-runs, deep copy and calls on the copy, "
                   "compose + run, config reload, caching runs with cache_deps_of / whole DAG, restarts from the cache with several selections) on three "
                   "template DAGs (independent setup nodes, chained setup nodes, plain pipeline with defaulted parameters), sync and async; all words "
                   "of length <= 2 (sampled in the quick tier) plus random longer ones. Non-trivial: " + RULE[prop],
           "samples": res["samples"][:2], "exhaustive": False, "events": res["events"], "antecedent_counters": res["counters"],
           "violation_counts": {k: n for k, n in res["viol_counts"].items() if k.startswith(prop)},
           "spec_to_code_replay": {k: res["model_replay"][k] for k in ("histories", "operations", "drift_count", "states")},
           "model_drift": res["model_replay"]["drift"][:2],
           "engine_cached": bool(res.get("cached"))}
    if res["model_replay"]["drift_count"]:
        common.say(f'MODEL-DRIFT: on {res["model_replay"]["drift_count"]} of {res["model_replay"]["histories"]} behaviours of spec/LifecycleMC.tla replayed on '
                   f'the real library the executed sets differ from the model: {res["model_replay"]["drift"][0]["differences"][:1]} (information; the '
                   f"property-level verdict comes from LifecycleTrace.tla on the same histories)")
    if res["model_replay"]["histories"] < 20:
        mach.append(f'only {res["model_replay"]["histories"]} behaviours of LifecycleMC.tla were replayed')
    assumptions = ["node entries come from the node_enter hook; setup values carry a global execution counter so that re-execution is visible",
                   "the value of an operation is compared with a freshly built DAG (the property's own definition) by the harness; which nodes must run, "
                   "which keys the DAG-level results hold and what a cache file contains is decided by spec/Lifecycle.tla, evaluated by TLC on every step",
                   "three template DAGs, histories up to length ~9"]
    return {"violations": viols, "machinery": mach, "coverage": cov, "assumptions": assumptions, "level": "model_checking"}


def replay(payload, log=common.say):
    import e4_driver as ed

    if payload.get("wedged"):
        # histories of a worker process that never came back: run them again in a process of their own, under a time limit
        import multiprocessing as mp
        jobs = [(d - 1, ops, a) for d, ops, a in payload["wedged"]]
        pool = mp.get_context("fork").Pool(1)
        try:
            pool.apply_async(ed._work, (jobs,)).get(timeout=(len(jobs) + 4) * ed.OP_TIMEOUT)
            log("replay: every history returned on the current tree")
            return 0
        except mp.TimeoutError:
            log("replay: property violated again (the histories did not return)")
            return 1
        finally:
            pool.terminate()

    ev = ed.run_history(ed.TEMPLATES[payload["d"] - 1], payload["ops"], payload.get("async", False), payload.get("sres", "thread"))
    recs = [{"d": payload["d"], "ops": payload["ops"], "async": bool(payload.get("async", False)), "sres": payload.get("sres", "thread"), "ev": ev}]
    if recs[0]["async"]:
        recs.append(dict(recs[0], **{"async": False, "ev": ed.run_history(ed.TEMPLATES[payload["d"] - 1], payload["ops"], False, payload.get("sres", "thread"))}))
    attach_twins(recs)
    traces = [{"tid": 1, "d": payload["d"], "ev": ev}]
    verdicts, _, _, errs = validate(traces, ed.TEMPLATES)
    if errs:
        log("MACHINERY-FAILURE: " + errs[0][-400:])
        return 2
    hit = False
    for x in verdicts[1]["viol"]:
        log(f'  operation {x["i"]} ({ev[x["i"] - 1]["op"]}): {x["c"]}')
        hit = hit or x["c"].split(".")[0] == payload["property"]
    log("replay: " + ("property violated again" if hit else "no violation of this property on the current tree"))
    return 1 if hit else 0
