"""Engine E2: recorder and dataflow (C01, C10, C20; the value half of C17)."""
import asyncio
import concurrent.futures as cf
import hashlib
import json
import os
import random
import time

import common
import tlc

SERVES = ["C01", "C10", "C20"]


def rand_attrs(rng):
    table = {}

    def attrs(key):
        if key not in table:
            from tawazi import Resource
            table[key] = {"priority": rng.choice([0, 0, 1, 5, -2]), "is_sequential": rng.random() < 0.15,
                          "resource": rng.choice([Resource.thread, Resource.thread, Resource.async_thread, Resource.main_thread])}
        return table[key]
    return attrs


def observe_program(P, givens, seed):
    """A fifth of the programs are built and called with the library's logger switched on (as with TAWAZI_LOGGER_LEVEL=DEBUG)
    into a sink that drops everything: every message is formatted, and logging must not change what a call returns."""
    if random.Random(seed ^ 0x5BD1E995).random() >= 0.2:
        return _observe_program(P, givens, seed)
    return with_logger(lambda: [dict(r, logging=True) for r in _observe_program(P, givens, seed)])


def with_logger(fn):
    import prog_run  # noqa: F401  (puts the library under test on the path)
    import tawazi  # noqa: F401  (importing the library switches its logger off: import first, enable afterwards)
    from loguru import logger as _lg
    try:
        _lg.remove()
    except ValueError:
        pass
    sink = _lg.add(lambda m: None, level="DEBUG")
    _lg.enable("tawazi")
    try:
        return fn()
    finally:
        _lg.disable("tawazi")
        try:
            _lg.remove(sink)
        except ValueError:
            pass


def _observe_program(P, givens, seed):
    """Build P once under a random configuration and call the SAME object with every argument tuple in turn
    (a later call must not see anything of an earlier one except setup results); returns observation rows."""
    import prog_gen as pg
    import prog_run as pr

    rng = random.Random(seed)
    rows = []
    is_async = rng.random() < 0.3
    mc = rng.randint(1, 4)
    dbg = pg.has_debug(P) and rng.random() < 0.6       # RUN_DEBUG_NODES during the calls on this object
    d = flat = None
    build_error = None
    try:
        d, flat = pr.build(P, rand_attrs(rng), is_async=is_async, mc=mc, share={} if rng.random() < 0.5 else None,
                           presub=lambda: rng.random() < 0.3)
        how = rng.random()
        if how < 0.3:
            # reconfigure priorities / sequentiality after the build: must not change the value
            ids = [i for _, i in flat]
            conf = {"nodes": {i: {"priority": rng.randint(-3, 9), "is_sequential": rng.random() < 0.2}
                              for i in rng.sample(ids, min(len(ids), rng.randint(1, 3)))}, "max_concurrency": rng.randint(1, 4)}
            if how < 0.1:
                d.config_from_dict(conf)
            else:
                import tempfile
                suffix = ".json" if how < 0.2 else ".yaml"
                with tempfile.NamedTemporaryFile("w", suffix=suffix, delete=False) as f:
                    if suffix == ".json":
                        json.dump(conf, f)
                    else:
                        import yaml
                        yaml.safe_dump(conf, f)
                (d.config_from_json if suffix == ".json" else d.config_from_yaml)(f.name)
                os.remove(f.name)
    except BaseException as e:  # noqa: BLE001
        build_error = e
    if build_error is None and rng.random() < 0.3:
        # an explicit setup() before the first call: it runs the setup call sites (also the nested ones) and nothing else -
        # whatever the defaults of the parameters are - and the calls afterwards find their results
        try:
            asyncio.run(d.setup()) if is_async else d.setup()
        except BaseException as e:  # noqa: BLE001
            build_error = e
    setup_paths = pr.setup_paths(P)
    # setup results the object holds before its first call (a nested DAG that had run its setup nodes on its own)
    pre = [] if build_error is not None else sorted(list(path) for path, iid in flat if list(path) in setup_paths and iid in d.results)
    # AsyncDAG: sometimes all the coroutines are created before the first one is awaited (conc = 3); awaited in turn
    # they mean the same as calls made one after the other
    turn = None
    if is_async and build_error is None and rng.random() < 0.5:
        turn = pr.run_real_turn(d, flat, [[pg.encode(x) for x in g] for g in givens], setup_paths, dbg)
    for gi, given in enumerate(givens):
        row = {"given": [pg.encode(x) for x in given], "raised": False, "errclass": "", "val": pg.verr(), "exec": [],
               "dup": False, "async": is_async, "built": True, "twice": False, "constret": False, "mc": mc, "conc": 0, "loop": 0, "pre": list(pre), "fresh_same": True, "dbg": dbg, "wrongthread": False}
        if build_error is not None:
            row["built"] = False
            row["twice"] = "already occupied" in str(build_error)
            row["constret"] = isinstance(build_error, TypeError) and "unexpected keyword argument 'id_'" in str(build_error)
            row["errclass"] = type(build_error).__name__
            row["msg"] = str(build_error)[:160]
            rows.append(row)
            break
        if turn is not None:
            r, pre = turn[gi]
            row["pre"], row["conc"] = list(pre), 3
        else:
            r = pr.run_real(d, flat, row["given"], is_async, dbg)
        row.update({k: r[k] for k in ("raised", "errclass", "val", "exec", "dup")})
        row["wrongthread"] = bool(r.get("wrongthread"))
        if r.get("unknown"):
            row["unknown"] = r["unknown"]
        if r.get("msg"):
            row["msg"] = r["msg"]
        row["ref"] = pr.plain_call(P, given, dbg)
        if row["ref"].get("exec") is not None:
            row["ref"]["exec"] = [p for p in row["ref"]["exec"] if p not in pre]
        rows.append(row)
        # which setup results the object holds now (a call can fail while assembling its return value, after the
        # execution itself succeeded and stored them)
        held = {iid for iid in d.results}
        pre = sorted(list(path) for path, iid in flat if list(path) in setup_paths and iid in held)
    # C15: what the last call returned is what a DAG built afresh from the same program returns for the same arguments
    if build_error is None and len(rows) >= 2 and turn is None and rng.random() < 0.3:
        try:
            d2, flat2 = pr.build(P, lambda k: {}, is_async=is_async, mc=mc)
            r2 = pr.run_real(d2, flat2, rows[-1]["given"], is_async, dbg)
            rows[-1]["fresh_same"] = (r2["raised"], r2["val"]) == (rows[-1]["raised"], rows[-1]["val"])
        except BaseException:  # noqa: BLE001
            pass
    return rows


def _work(args):
    import prog_gen as pg

    out = []
    for (idx, P, givens, seed) in args:
        try:
            rows = observe_program(P, givens, seed)
        except BaseException as e:  # noqa: BLE001
            rows = [{"harness_error": repr(e)[:200]}]
        out.append((idx, rows))
    return out


def plan(tier, seed):
    import prog_gen as pg

    rng = random.Random(seed + 41)
    progs = []
    n_small, n_rand = (800, 2200) if tier == "quick" else (6000, 14000)
    for _ in range(n_small):
        progs.append(pg.gen_program(rng, nsites=rng.randint(1, 2), nparams=rng.randint(0, 2), max_depth=1))
    for _ in range(n_rand):
        progs.append(pg.gen_program(rng, nsites=rng.randint(2, 8), max_depth=rng.choice([1, 2, 2, 3]), p_debug=0.2))
    for _ in range(150 if tier == "quick" else 1500):
        # a flagged nested DAG that hands a defaulted parameter straight back, in every return shape
        progs.append(pg.gen_program(rng, nsites=rng.randint(1, 3), nparams=rng.randint(1, 3), max_depth=rng.choice([1, 2]), focus="flagged-sub", p_debug=0.4))
    for _ in range(100 if tier == "quick" else 1000):
        # a nested DAG called with an INDEXED result for a parameter that its body indexes again
        progs.append(pg.gen_program(rng, nsites=rng.randint(0, 2), nparams=rng.randint(0, 2), max_depth=rng.choice([1, 2]), focus="indexed-arg-sub"))
    jobs = []
    for i, P in enumerate(progs):
        givens = [pg.gen_args(P, rng) for _ in range(3 if tier == "quick" else 4)]
        if P["params"] and rng.random() < 0.5:
            # explicit values for every parameter first, then a call that relies on the defaults
            full = givens[0] + [pg.value_for(P["ptypes"][p], rng) for p in range(len(givens[0]), len(P["params"]))]
            required = sum(1 for p in P["params"] if not p["has"])
            givens = [full, full[:required]] + givens[1:]
        if rng.random() < 0.05 and P["params"]:
            givens.append(givens[0][:max(0, sum(1 for p in P["params"] if not p["has"]) - 1)])   # a required argument is missing
        if rng.random() < 0.03:
            givens.append(list(givens[0]) + [1] * (len(P["params"]) - len(givens[0]) + 1))       # one argument too many
        jobs.append((i, P, givens, rng.randrange(1 << 30)))
    # containers that tell a list key from a tuple key (numpy / pandas style): usages with list, tuple and int keys.  A
    # generator of its own, so that the families above stay what they were
    rg = random.Random(seed + 977)
    for _ in range(120 if tier == "quick" else 1200):
        P = pg.gen_program(rg, nsites=rg.randint(0, 4), nparams=rg.randint(0, 2), max_depth=rg.choice([1, 2]), focus="grid")
        progs.append(P)
        jobs.append((len(progs) - 1, P, [pg.gen_args(P, rg) for _ in range(2)], rg.randrange(1 << 30)))
    # a nested DAG called with an explicit constant that is equal to the default of its parameter without being the same
    # value (True for a default 1, ...): the body sees the argument.  Again a generator of its own
    rq = random.Random(seed + 1979)
    for _ in range(80 if tier == "quick" else 800):
        P = pg.gen_program(rq, nsites=rq.randint(1, 3), nparams=rq.randint(0, 2), max_depth=rq.choice([1, 2]), focus="eq-default-sub")
        progs.append(P)
        jobs.append((len(progs) - 1, P, [pg.gen_args(P, rq) for _ in range(2)], rq.randrange(1 << 30)))
    return progs, jobs


def _mismatch_lines(out, tag):
    res = []
    for line in out.splitlines():
        line = line.strip()
        if line.startswith(f'"{tag} '):
            res.append(json.loads(line[len(tag) + 2:-1].encode().decode("unicode_escape")))
    return res


def run(tier, seed, log=common.say):
    import multiprocessing as mp
    import prog_gen as pg

    key = hashlib.sha256(f"{common.repo_hash()}|{common.machinery_hash()}|{tier}|{seed}".encode()).hexdigest()[:20]
    hit = common.cache_get("E2", key)
    if hit:
        hit["cached"] = True
        return hit
    t0 = time.time()
    progs, jobs = plan(tier, seed)
    chunks = [jobs[i:i + 25] for i in range(0, len(jobs), 25)]
    results = {}
    pool = mp.get_context("fork").Pool(12, maxtasksperchild=10)
    for part in pool.imap(_work, chunks):
        for idx, rows in part:
            results[idx] = rows
    pool.close()
    pool.join()
    harness_errors = [r[0]["harness_error"] for r in results.values() if r and "harness_error" in r[0]]
    obs, oracle_dis = [], []
    for idx in sorted(results):
        for row in results[idx]:
            if "harness_error" in row:
                continue
            row["p"] = idx + 1
            obs.append(row)
    # the program an observation is judged against: with RUN_DEBUG_NODES off its debug call sites are switched off
    stripped = [pg.strip(P) for P in progs]
    variants = {}
    for r in obs:
        if not r.get("dbg") and pg.has_debug(progs[r["p"] - 1]):
            if r["p"] not in variants:
                stripped.append(pg.strip(progs[r["p"] - 1], dbg=False))
                variants[r["p"]] = len(stripped)
            r["p"] = variants[r["p"]]
    # TLC: one batch per ~1500 observations, each batch carries the programs it refers to
    os.makedirs(common.CACHE, exist_ok=True)
    batches = [obs[i:i + 1500] for i in range(0, len(obs), 1500)]

    def one(ib):
        i, b = ib
        used = sorted({r["p"] for r in b})
        remap = {p: k + 1 for k, p in enumerate(used)}
        path = os.path.join(common.CACHE, f"e2-{os.getpid()}-{i}.json")
        rows = [{"p": remap[r["p"]], **{k: r[k] for k in ("given", "raised", "errclass", "val", "exec", "dup", "async", "built", "twice", "constret", "conc", "loop", "pre")}, "fresh_same": r.get("fresh_same", True), "wrongthread": bool(r.get("wrongthread"))} for r in b]
        with open(path, "w") as f:
            json.dump({"progs": [stripped[p - 1] for p in used], "obs": rows}, f)
        try:
            r = tlc.run_tlc("DfCheck", "DfCheck.cfg", env={"CASE_FILE": path}, workers=1, heap="3g", timeout=3600)
        finally:
            os.remove(path)
        mm = _mismatch_lines(r["out"], "MISMATCH")
        cc = _mismatch_lines(r["out"], "COUNTS")
        err = None if tlc.tlc_ok(r) and cc else r["out"][-1500:]
        return i, mm, (cc[0] if cc else {}), r.get("distinct", 0), r.get("states", 0), err

    mism, counts, states, trans, errs = [], {}, 0, 0, []
    with cf.ThreadPoolExecutor(8) as ex:
        futs = list(ex.map(one, enumerate(batches)))
    for i, mm, cc, s, t, err in futs:
        for m in mm:
            m["row"] = batches[i][m["o"] - 1]
        mism += mm
        for k, v in cc.items():
            counts[k] = counts.get(k, 0) + v
        states += s
        trans += t
        if err:
            errs.append(err)
    # model level: all schedules of the flat programs
    flat_cases = []
    for r in obs:
        P = stripped[r["p"] - 1]
        if r["built"] and not P["subs"] and len(P["sites"]) <= 6 and len(flat_cases) < (400 if tier == "quick" else 3000):
            flat_cases.append({"prog": P, "given": r["given"]})
    mpath = os.path.join(common.CACHE, f"e2-mc-{os.getpid()}.json")
    with open(mpath, "w") as f:
        json.dump({"cases": flat_cases}, f)
    try:
        mr = tlc.run_tlc("DataflowMC", "DataflowMC.cfg", env={"CASE_FILE": mpath}, workers=8, heap="4g", timeout=3600)
    finally:
        os.remove(mpath)
    model = {"cases": len(flat_cases), "states": mr.get("distinct", 0), "transitions": mr.get("states", 0),
             "ok": "Model checking completed. No error has been found." in mr["out"], "tail": "" if "No error has been found" in mr["out"] else mr["out"][-1500:]}
    # the second oracle (plain Python) must agree with the specification on every observation
    bad_by_obs = {id(m["row"]): m for m in mism}
    for r in obs:
        ref = r.get("ref")
        if not r["built"] or ref is None:
            continue
        m = bad_by_obs.get(id(r))
        tl_bad = bool(m) and any(c.endswith((".value", ".exec")) for c in m["c"])
        py_in = not ref.get("err") and not ref.get("argerr")
        # the recorded C10 findings are not ".value" / ".exec" mismatches (same definitions as spec/DfCheck.tla)
        pre_l = r.get("pre", [])
        letter = py_in and not r["raised"] and r["val"] == ref["val"] and r["exec"] == ref["exec"]
        keep = py_in and (r["raised"] if ref["errK"] else (not r["raised"] and r["val"] == ref["valK"] and
                                                            r["exec"] == [p for p in ref["execK"] if p not in pre_l]))
        kept = (not letter) and keep
        idx_none = py_in and r["raised"] and ref["errI"] and r["errclass"] in ("AttributeError", "TypeError")
        py_bad = py_in and not letter and not kept and not idx_none
        if tl_bad != py_bad:
            oracle_dis.append({"given": r["given"], "tlc": m["c"] if m else [], "ref": ref})
    viol_counts, viols, kept = {}, [], {}
    for m in mism:
        for c in m["c"]:
            ck = c + ("|twice" if m["row"].get("twice") else "")
            viol_counts[ck] = viol_counts.get(ck, 0) + 1
            if kept.get(ck, 0) < 4:
                kept[ck] = kept.get(ck, 0) + 1
                row = {k: v for k, v in m["row"].items() if k != "ref"}
                viols.append({"clause": c, "twice": bool(m["row"].get("twice")), "prog": stripped[m["row"]["p"] - 1], "row": row,
                              "expected": m.get("expval"), "expexec": m.get("expexec")})
    res = {"engine": "E2", "tier": tier, "seed": seed, "programs": len(progs), "observations": len(obs),
           "harness_errors": harness_errors[:5], "harness_error_count": len(harness_errors),
           "counts": counts, "states": states, "transitions": trans, "tlc_errors": errs[:2], "model": model,
           "oracle_disagreements": oracle_dis[:5], "oracle_disagreement_count": len(oracle_dis),
           "viol_counts": viol_counts, "violations": viols,
           "samples": [{"program": stripped[r["p"] - 1], "given": r["given"], "returned": r["val"], "executed_sites": r["exec"], "async": r["async"]}
                       for r in obs[:: max(1, len(obs) // 2)][:2]],
           "wall": round(time.time() - t0, 1)}
    common.cache_put("E2", key, res)
    return res


NONTRIVIAL = {"C01": "ineq", "C10": "flagged", "C20": "nested", "C17": "async", "C03": "ineq", "C02": "indexed", "C15": "ineq", "C13": "withdebug", "C04": "nested"}


def report(prop, res):
    viols = []
    for v in res["violations"]:
        if v["clause"].split(".")[0] != prop:
            continue
        ck = v["clause"] + ("|twice" if v["twice"] else "")
        viols.append({"sig": {"clause": v["clause"], "twice": v["twice"]},
                      "what": f'{v["clause"]}: returned {json.dumps(v["row"]["val"])[:200]} executed {v["row"]["exec"]} raised={v["row"]["raised"]} '
                              f'{v["row"].get("errclass", "")} {v["row"].get("msg", "")[:100]}; expected {json.dumps(v["expected"])[:200]} exec {v["expexec"]}; '
                              f'{res["viol_counts"][ck]} such observations',
                      "replay": {"engine": "E2", "property": prop, "clause": v["clause"], "prog": v["prog"], "given": v["row"]["given"],
                                 "async": v["row"]["async"], "observed": v["row"]}})
    mach = []
    if res["tlc_errors"]:
        mach.append("TLC failed: " + res["tlc_errors"][0][-500:])
    if res["harness_error_count"]:
        mach.append(f'harness errors: {res["harness_errors"][:2]}')
    if res["oracle_disagreement_count"]:
        mach.append(f'the TLA+ reference semantics and the plain-Python evaluation disagree on {res["oracle_disagreement_count"]} observations: {res["oracle_disagreements"][:1]}')
    if res["counts"].get("rows", 0) != res["observations"]:
        mach.append(f'TLC evaluated {res["counts"].get("rows")} of {res["observations"]} observations')
    if not res["model"]["ok"]:
        mach.append("DataflowMC (schedule independence of the abstract results map) failed: " + res["model"]["tail"][-400:])
    nontriv = res["counts"].get(NONTRIVIAL[prop], 0)
    if nontriv < 2:
        mach.append(f"vacuous: {nontriv} non-trivial observations for {prop}")
    if prop == "C02" and res["counts"].get("seqkeys", 0) < 2:
        mach.append(f'vacuous: {res["counts"].get("seqkeys", 0)} observations with a list / tuple key inside the equivalence')
    cov = {"states": res["states"] + res["model"]["states"], "transitions": res["transitions"] + res["model"]["transitions"],
           "traces_validated_against_impl": res["observations"], "evaluations": res["observations"], "distinct_nontrivial": nontriv,
           "rule": "observations = (generated describing function, argument tuple, random configuration: max_concurrency 1..4, priorities, is_sequential, "
                   "resources, sync / async, reconfiguration through dict / JSON / YAML); programs use positional / keyword / constant / defaulted arguments, "
                   "indexing, unpack_to, operators (also reflected), and_/or_/not_, re-used functions, all return shapes, nested DAGs to depth 3, activation "
                   "flags of every form. Non-trivial: inside the equivalence (the plain body does not raise)"
                   + {"C01": "", "C10": " and the program carries an activation flag", "C20": " and the program calls a nested DAG",
                      "C17": " and run as AsyncDAG", "C03": "", "C02": " and some value is used through an index path (int, string, list and tuple keys; counts.seqkeys observations use a list / tuple key on a container that tells them apart)", "C15": "", "C13": " and the program has debug call sites", "C04": " and the program calls a nested DAG (thread identity of every entered node against its resource)"}[prop],
           "samples": res["samples"], "exhaustive": False, "programs": res["programs"], "counts": res["counts"],
           "model_run": {k: res["model"][k] for k in ("cases", "states", "transitions", "ok")},
           "violation_counts": {k: n for k, n in res["viol_counts"].items() if k.startswith(prop)},
           "oracle_disagreements": res["oracle_disagreement_count"], "engine_cached": bool(res.get("cached"))}
    assumptions = ["the reference semantics is spec/Dataflow.tla (Eval), evaluated by TLC on every observation; a plain-Python evaluation of the same "
                   "program is a second oracle and any disagreement between the two fails the run as a machinery failure",
                   "executed call sites come from the node_enter hook, mapped to call sites through the ids returned while describing",
                   "programs on which the plain body raises are outside the equivalence (DESIGN I4) and only counted",
                   "schedules are whatever the thread pool produces here; schedule independence is shown on the model (DataflowMC) and its premises by E1"]
    return {"violations": viols, "machinery": mach, "coverage": cov, "assumptions": assumptions, "level": "model_checking"}


def replay(payload, log=common.say):
    import prog_gen as pg
    import prog_run as pr

    P = payload["prog"]
    given = [pg.decode(x) for x in payload["given"]]
    row = {"p": 1, "given": payload["given"], "raised": False, "errclass": "", "val": pg.verr(), "exec": [], "dup": False,
           "async": payload.get("async", False), "built": True, "twice": False, "constret": False, "conc": 0, "loop": 0, "pre": [], "fresh_same": True, "wrongthread": False}
    try:
        attrs = lambda k: {}  # noqa: E731
        if payload.get("clause") == "C04.thread":
            from tawazi import Resource
            attrs = lambda k: {"resource": Resource.main_thread}  # noqa: E731  (every decorated function asks for the main thread)
        def again():
            d, flat = pr.build(P, attrs, is_async=row["async"], mc=2)
            return pr.run_real(d, flat, payload["given"], row["async"], bool(payload.get("observed", {}).get("dbg")))
        r = with_logger(again) if payload.get("observed", {}).get("logging") else again()
        row.update({k: r[k] for k in ("raised", "errclass", "val", "exec", "dup")})
        row["wrongthread"] = bool(r.get("wrongthread"))
    except BaseException as e:  # noqa: BLE001
        row["built"] = False
        row["twice"] = "already occupied" in str(e)
        row["constret"] = isinstance(e, TypeError) and "unexpected keyword argument 'id_'" in str(e)
        log(f"build failed: {e!r}")
    path = os.path.join(common.CACHE, f"e2-replay-{os.getpid()}.json")
    os.makedirs(common.CACHE, exist_ok=True)
    with open(path, "w") as f:
        json.dump({"progs": [P], "obs": [row]}, f)
    r = tlc.run_tlc("DfCheck", "DfCheck.cfg", env={"CASE_FILE": path}, workers=1)
    os.remove(path)
    mm = _mismatch_lines(r["out"], "MISMATCH")
    log(f"observed: {row}")
    hit = False
    for m in mm:
        log(f'  clauses {m["c"]} expected {m.get("expval")}')
        hit = hit or any(c.split(".")[0] == payload["property"] for c in m["c"])
    log("replay: " + ("property violated again" if hit else "no violation of this property on the current tree"))
    return 1 if hit else 0
