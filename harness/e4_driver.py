"""Engine E4 driver: histories of operations on DAG instances, executors and cache files.

The harness generates histories, runs them on the real library and records one uniform event per
operation; what each operation must do is decided by spec/Lifecycle.tla (via LifecycleTrace.tla).
"""
import itertools
import os
import pickle
import random
import sys
import tempfile
from copy import deepcopy

HERE = os.path.dirname(os.path.abspath(__file__))
if HERE not in sys.path:
    sys.path.insert(0, HERE)
os.environ["TAWAZI_VERIF"] = "1"
REPO = os.environ.get("VERIF_REPO", "/repo")
if REPO not in sys.path:
    sys.path.insert(0, REPO)

FAIL = 99

# templates: n, deps, kind, const, np, defaults (-1 = required), argof
TEMPLATES = [
    # T1: independent setup nodes s1, s2; a(s1, x), b(s2, y=5), c(a, b)
    {"name": "indep", "n": 5, "deps": [[], [], [1], [2], [3, 4]], "kind": ["setup", "setup", "reg", "reg", "reg"],
     "const": [True, False, False, False, False], "np": 2, "defaults": [-1, 5], "argof": [0, 0, 1, 2, 0], "compose": [[3, 4], [5]]},
    # T2: chained setup s1 -> s2; a(s2, x), b(s1, y=7), c(a), d(b)
    {"name": "chain", "n": 6, "deps": [[], [1], [2], [1], [3], [4]], "kind": ["setup", "setup", "reg", "reg", "reg", "reg"],
     "const": [False, False, False, False, False, False], "np": 2, "defaults": [-1, 7], "argof": [0, 0, 1, 2, 0, 0], "compose": [[3], [5]]},
    # T3: no setup: a(x), b(a, y=5), c(b, z=7), d(a)
    {"name": "plain", "n": 4, "deps": [[], [1], [2], [1]], "kind": ["reg", "reg", "reg", "reg"],
     "const": [False, False, False, True], "np": 3, "defaults": [-1, 5, 7], "argof": [1, 2, 3, 0], "compose": [[1], [4]]},
    # T4: a setup node that returns None (side effect only), a node that returns None, a deactivated node, keyword arguments
    {"name": "nones", "n": 6, "deps": [[], [1], [2], [3], [3], [3, 4, 5]], "kind": ["setup", "setup", "reg", "reg", "reg", "reg"],
     "const": [False, False, False, False, False, False], "np": 1, "defaults": [-1], "argof": [0, 0, 1, 0, 0, 0],
     "compose": [[3], [6]], "nonefn": [1, 4], "off": [5], "kwdeps": {"6": [3, 5]}},
]
for _T in TEMPLATES:
    _T.setdefault("nonefn", [])
    _T.setdefault("off", [])
    _T.setdefault("kwdeps", {})

_COUNTER = itertools.count(1)
FAIL_SETUP = {"on": False}
POISONED = False      # an operation hung in this process (a lock may be held for good): nothing more is run here
OP_TIMEOUT = 30


class OpHang(BaseException):
    pass


def _alarm(signum, frame):
    raise OpHang()


class Injected(Exception):
    pass


def mask(nodes):
    m = 0
    for k in nodes:
        m |= 1 << (k - 1)
    return m


def unmask(n, m):
    return None if m == -1 else [k for k in range(1, n + 1) if m >> (k - 1) & 1]


class Recorder:
    def __init__(self):
        self.reset()

    def reset(self):
        self.entered = {}
        self.execs = []      # results maps of the executions begun during the current operation

    def __call__(self, event, **f):
        if event == "exec_begin":
            self.execs.append(f["results"])
        elif event == "node_enter":
            # a node still in flight from an earlier (failed) call may enter late: not part of this operation
            if not any(f["results"] is r for r in self.execs):
                return
            i = f["xn"].id
            self.entered[i] = self.entered.get(i, 0) + 1


def build(D, is_async=False):
    from tawazi import Resource, dag, xn

    n = D["n"]
    xs = {}
    nonefn = set(D.get("nonefn", []))
    for k in range(1, n + 1):
        def mk(k=k):
            if D["kind"][k - 1] == "setup":
                def f(*a, **kw):
                    if FAIL_SETUP["on"]:
                        FAIL_SETUP["on"] = False        # the first setup node entered by a `setupfail` operation raises
                        raise Injected(k)
                    c = next(_COUNTER)
                    return None if k in nonefn else ("s", k, c, tuple(a) + tuple(kw[x] for x in sorted(kw)))
            else:
                has_arg = D["argof"][k - 1] != 0
                def f(*a, **kw):
                    if has_arg and a and a[-1] == FAIL:
                        raise Injected(k)
                    return None if k in nonefn else ("v", k, tuple(a) + tuple(kw[x] for x in sorted(kw)))
            f.__qualname__ = f.__name__ = f"f{k}"
            return f
        is_setup = D["kind"][k - 1] == "setup"
        xs[k] = xn(mk(), setup=is_setup, resource=Resource.async_thread if is_setup and D.get("sres") == "async" else Resource.thread)
    params = []
    for p in range(1, D["np"] + 1):
        d = D["defaults"][p - 1]
        params.append(f"p{p}" if d == -1 else f"p{p}={d}")
    lines = []
    for k in range(1, n + 1):
        kwd = D.get("kwdeps", {}).get(str(k), [])
        parts = [f"v{d}" for d in D["deps"][k - 1] if d not in kwd]
        if D["const"][k - 1]:
            parts.append("3")
        if D["argof"][k - 1]:
            parts.append(f"p{D['argof'][k - 1]}")
        parts += [f"k{d}=v{d}" for d in kwd]
        if k in D.get("off", []):
            parts.append("twz_active=False")
        lines.append(f"    v{k} = X[{k}]({', '.join(parts)})")
    ret = ", ".join(f"v{k}" for k in range(1, n + 1))
    src = f"def describe({', '.join(params)}):\n" + "\n".join(lines) + f"\n    return ({ret},)\n"
    env = {"X": xs}
    exec(compile(src, "<e4>", "exec"), env)  # noqa: S102
    return dag(env["describe"], max_concurrency=2, is_async=is_async), xs


def strip(v):
    """Remove setup nonces from a value (for comparison with a freshly built DAG)."""
    if isinstance(v, tuple):
        if len(v) == 4 and v[0] == "s":
            return ("s", v[1], strip(v[3]))
        return tuple(strip(x) for x in v)
    return v


def same_as_fresh(ret, fresh):
    """ret equals what a fresh DAG returns, except that an already computed setup value may show where
    the fresh (sub-graph) execution has None (C12: real values of executed or already-computed nodes)."""
    if not isinstance(ret, tuple) or not isinstance(fresh, tuple) or len(ret) != len(fresh):
        return strip(ret) == strip(fresh)
    for a, b in zip(ret, fresh):
        if strip(a) == strip(b):
            continue
        if b is None and isinstance(a, tuple) and a and a[0] == "s":
            continue
        return False
    return True


def nonce_of(v):
    return v[2] if isinstance(v, tuple) and len(v) == 4 and v[0] == "s" else 0


class History:
    """Runs a list of abstract operations on real objects and records the events."""

    def __init__(self, D, is_async=False):
        from tawazi import _verif

        self.D = D
        self.n = D["n"]
        self.is_async = is_async
        self.rec = Recorder()
        self.inst = {1: build(D, is_async)[0]}
        self.execs = {}
        self.files = {}
        self.tmp = tempfile.mkdtemp(prefix="e4-", dir=os.environ.get("VERIF_TMP", "/tmp"))
        self.events = []
        self._verif = _verif

    def close(self):
        import shutil

        shutil.rmtree(self.tmp, ignore_errors=True)

    def run(self, fn, *a):
        import asyncio

        if self.is_async:
            r = fn(*a)
            if asyncio.iscoroutine(r):
                return asyncio.run(r)
            return r
        return fn(*a)

    def ids(self, m):
        s = unmask(self.n, m)
        return None if s is None else [f"f{k}" for k in s]

    def observe(self, op, i, thunk, args=(), extra=None):
        """Run thunk under the recorder and build the event."""
        from tawazi.errors import TawaziArgumentException, TawaziBaseException, TawaziUsageError

        D, n = self.D, self.n
        import signal

        global POISONED
        self.rec.reset()
        self._verif.sink = self.rec
        out, ret = 0, None
        old_handler = signal.signal(signal.SIGALRM, _alarm)
        signal.alarm(OP_TIMEOUT)
        try:
            ret = thunk()
        except OpHang:
            out = 6
            POISONED = True
            self.poisoned = True
        except ValueError:
            out = 3
        except TawaziUsageError:
            out = 2
        except TawaziArgumentException:
            out = 4
        except TawaziBaseException as e:
            out = 1 if isinstance(e.__cause__, Injected) else 5
        except Injected:
            out = 1
        except BaseException as e:  # noqa: BLE001
            out = 5
            self.last_error = repr(e)
        finally:
            signal.alarm(0)
            signal.signal(signal.SIGALRM, old_handler)
            self._verif.sink = None
        ids = [f"f{k}" for k in range(1, n + 1)]
        ent = self.rec.entered
        ev = {"op": op, "i": i, "j": 0, "x": 0, "f": 0, "fc": 0, "r": -1, "xx": -1, "t": -1, "dep": -1, "counts": [0] * n, "nonces2": [0] * n,
              "args": list(args), "out": out,
              "e": mask(int(x[1:]) for x in ent if x in ids),
              "dup": mask(int(x[1:]) for x, c in ent.items() if x in ids and c > 1),
              "used": [-2] * D["np"], "nonces": [0] * n, "retn": [0] * n, "fresh": True,
              "keys": 0, "xkeys": 0, "cached": -1, "alt": 0}
        ev["counts"] = [ent.get(f"f{k}", 0) for k in range(1, n + 1)]
        if any(x not in ids for x in ent) and out == 0:
            ev["out"] = 5
        d = self.inst.get(i)
        if d is not None:
            res = d.results
            ev["keys"] = mask(k for k in range(1, n + 1) if f"f{k}" in res and D["kind"][k - 1] == "setup")
            ev["xkeys"] = sum(1 for k in range(1, n + 1) if f"f{k}" in res and D["kind"][k - 1] != "setup")
            # a setup node that returns None carries no counter: report a pseudo nonce while its key is present
            ev["nonces"] = [(10 ** 6 + k if f"f{k}" in res and k in D.get("nonefn", []) else nonce_of(res.get(f"f{k}"))) for k in range(1, n + 1)]
        if ret is not None and isinstance(ret, tuple) and len(ret) == n:
            ev["retn"] = [nonce_of(v) for v in ret]
            for k, v in enumerate(ret, 1):
                p = D["argof"][k - 1]
                if p and isinstance(v, tuple) and v[0] == "v" and v[2]:
                    ev["used"][p - 1] = v[2][-1]
        if extra:
            ev.update(extra)
        self.events.append(ev)
        return ev, ret

    def fresh_value(self, args, sel=None):
        """What a freshly built DAG returns for the same arguments (and selection)."""
        d, _ = build(self.D, self.is_async)
        a = [x for x in args if x != -1]
        if sel is None:
            return self.run(d, *a)
        ex = d.executor(**sel)
        return self.run(ex, *a)

    def fresh_nonnull(self, args, sel):
        r = self.fresh_value(args, sel)
        return {k for k, v in enumerate(r, 1) if v is not None}

    # ------------------------------------------------------------ operations
    def op_call(self, i, args):
        a = self.trim(args)
        ev, ret = self.observe("call", i, lambda: self.run(self.inst[i], *a), args)
        if ev["out"] == 0:
            ev["fresh"] = same_as_fresh(ret, self.fresh_value(args))

    def trim(self, args):
        a = list(args)
        while a and a[-1] == -1:
            a.pop()
        return [x for x in a]

    def trim_for_restart(self, args):
        """A restart is run with the arguments of the caching run; every other restart of a history leaves out the trailing
        arguments that have a default - the file holds the values the caching run was given, and they win over the defaults
        (C18: the restart returns the same value)."""
        a = self.trim(args)
        self.nrestarts = getattr(self, "nrestarts", 0) + 1
        if self.nrestarts % 2 == 0:
            while a and self.D["defaults"][len(a) - 1] != -1:
                a.pop()
        return a

    def op_setup(self, i, r=-1, xx=-1, t=-1):
        kw = {}
        if r != -1:
            kw["root_nodes"] = self.ids(r)
        if xx != -1:
            kw["exclude_nodes"] = self.ids(xx)
        if t != -1:
            kw["target_nodes"] = self.ids(t)
        self.observe("setup", i, lambda: self.run(lambda: self.inst[i].setup(**kw)), extra={"r": r, "xx": xx, "t": t})

    def op_setupfail(self, i):
        """setup() during which the first setup node that is entered raises: nothing is stored, and the instance works on."""
        FAIL_SETUP["on"] = True
        try:
            self.observe("setupfail", i, lambda: self.run(lambda: self.inst[i].setup()))
        finally:
            FAIL_SETUP["on"] = False

    def sel_kwargs(self, r, xx, t, dep):
        kw = {}
        if dep != -1:
            kw["cache_deps_of"] = self.ids(dep)
        else:
            if r != -1:
                kw["root_nodes"] = self.ids(r)
            if xx != -1:
                kw["exclude_nodes"] = self.ids(xx)
            if t != -1:
                kw["target_nodes"] = self.ids(t)
        return kw

    def op_exnew(self, i, x, r=-1, xx=-1, t=-1, dep=-1, f=0, fc=0):
        kw = self.sel_kwargs(r, xx, t, dep)
        if f:
            kw["cache_in"] = os.path.join(self.tmp, f"c{f}.pkl")
        if fc:
            if fc not in self.files:
                return          # the cache file does not exist yet: not part of this history
            kw["from_cache"] = self.files[fc][0]

        def mk():
            self.execs[x] = (self.inst[i].executor(**kw), dict(self.sel_kwargs(r, xx, t, dep)), f, fc)
        self.execs.pop(x, None)
        self.observe("exnew", i, mk, extra={"x": x, "r": r, "xx": xx, "t": t, "dep": dep, "f": f, "fc": fc})

    def op_exrun(self, x, args, f=0):
        if x not in self.execs:
            return
        exe, sel, f, fc = self.execs[x]      # the cache files are properties of the executor
        i = [k for k, d in self.inst.items() if d is exe.dag][0]
        if fc:
            args = self.files[fc][1]         # a restart is run with the arguments of the caching run
        a = self.trim_for_restart(args) if fc else self.trim(args)
        ev, ret = self.observe("cacherun" if f else "exrun", i, lambda: self.run(exe, *a), args, extra={"x": x, "f": f})
        if ev["out"] == 0:
            try:
                if fc:
                    full = self.fresh_value(args)
                    sel_nodes = self.fresh_nonnull(args, sel)
                    ev["fresh"] = isinstance(ret, tuple) and all(
                        (a_ is None and k not in sel_nodes) or strip(a_) == strip(b_) for k, (a_, b_) in enumerate(zip(ret, full), 1))
                else:
                    ev["fresh"] = same_as_fresh(ret, self.fresh_value(args, sel))
            except BaseException:  # noqa: BLE001
                ev["fresh"] = False
            if f:
                path = os.path.join(self.tmp, f"c{f}.pkl")
                try:
                    with open(path, "rb") as fh:
                        content = pickle.load(fh)  # noqa: S301
                    ev["cached"] = mask(k for k in range(1, self.n + 1) if f"f{k}" in content)
                    self.files[f] = (path, list(args))
                except OSError:
                    ev["cached"] = 0

    def op_exsetup(self, x):
        """executor.setup(): the setup nodes the executor's targets need (its exclude list applies, its roots do not)."""
        if x not in self.execs:
            return
        exe = self.execs[x][0]
        i = [k for k, d in self.inst.items() if d is exe.dag][0]
        self.observe("exsetup", i, lambda: self.run(lambda: exe.setup()), extra={"x": x})

    def op_restart(self, i, f, r=-1, xx=-1, t=-1, dep=-1, alt=0):
        if f not in self.files:
            return
        path, args = self.files[f]
        kw = self.sel_kwargs(r, xx, t, dep)
        a = self.trim_for_restart(args)
        if alt:
            # a restart called with OTHER arguments than the run that wrote the file (all of them given): the nodes it
            # executes that read a DAG input receive the arguments of this call (C02), whatever inputs the file holds
            args = a = [20 + p for p in range(self.D["np"])]

        def go():
            exe = self.inst[i].executor(from_cache=path, **kw)
            return self.run(exe, *a)
        ev, ret = self.observe("restart", i, go, args, extra={"f": f, "r": r, "xx": xx, "t": t, "dep": dep, "alt": alt})
        if alt and isinstance(ret, tuple) and len(ret) == self.D["n"]:
            # the arguments used by the nodes this restart EXECUTED (the values of the others come from the file)
            ev["used"] = [-2] * self.D["np"]
            for k, v in enumerate(ret, 1):
                p = self.D["argof"][k - 1]
                if p and ev["e"] >> (k - 1) & 1 and isinstance(v, tuple) and v[0] == "v" and v[2]:
                    ev["used"][p - 1] = v[2][-1]
        if ev["out"] == 0 and not alt:
            try:
                # every value the restart returns is the value a full fresh call computes, and every node
                # of the restart's selection has a value
                full = self.fresh_value(args)
                sel_nodes = self.fresh_nonnull(args, kw)
                ev["fresh"] = isinstance(ret, tuple) and all(
                    (a is None and k not in sel_nodes) or strip(a) == strip(b) for k, (a, b) in enumerate(zip(ret, full), 1))
            except BaseException:  # noqa: BLE001
                ev["fresh"] = False

    def op_gsetup(self, i, j):
        """setup() of two instances at the same time: gathered in one loop (async) or from two threads (sync)."""
        import asyncio
        import threading

        if j not in self.inst or i == j:
            return
        box = {}

        def go():
            def runner():
                try:
                    if self.is_async:
                        async def both():
                            await asyncio.gather(self.inst[i].setup(), self.inst[j].setup())
                        asyncio.run(both())
                    else:
                        ts = [threading.Thread(target=self.inst[k].setup, daemon=True) for k in (i, j)]
                        for t in ts:
                            t.start()
                        for t in ts:
                            t.join(6)
                        if any(t.is_alive() for t in ts):
                            box["hang"] = True
                except BaseException as e:  # noqa: BLE001
                    box["exc"] = e
            th = threading.Thread(target=runner, daemon=True)
            th.start()
            th.join(6)
            if th.is_alive() or box.get("hang"):
                raise TimeoutError("the two setup calls did not finish")
            if "exc" in box:
                raise box["exc"]
        ev, _ = self.observe("gsetup", i, go, extra={"j": j})
        if getattr(self, "last_error", "").startswith("TimeoutError") and ev["out"] == 5:
            global POISONED
            ev["out"] = 6
            self.poisoned = True        # a thread of this process is stuck for good
            POISONED = True
        res2 = self.inst[j].results
        ev["nonces2"] = [(10 ** 6 + k if f"f{k}" in res2 and k in self.D.get("nonefn", []) else nonce_of(res2.get(f"f{k}"))) for k in range(1, self.n + 1)]

    def op_copy(self, i, j):
        def go():
            self.inst[j] = deepcopy(self.inst[i])
        self.observe("copy", i, go, extra={"j": j})

    def op_compose(self, i, ins, outs, vals):
        def go():
            c = self.inst[i].compose("composed", [f"f{k}" for k in ins], [f"f{k}" for k in outs])
            self.run(c, *vals)
        self.observe("compose", i, go)

    def op_config(self, i, prios, mc=3):
        def go():
            self.inst[i].config_from_dict({"nodes": {f"f{k}": {"priority": p} for k, p in prios.items()}, "max_concurrency": mc})
        self.observe("config", i, go)

    def apply(self, op):
        if getattr(self, "poisoned", False):
            return
        if op[0] in ("call", "setup", "setupfail", "exnew", "copy", "compose", "config", "restart", "gsetup") and op[1] not in self.inst:
            return  # the instance does not exist (yet): the operation is not part of this history
        getattr(self, "op_" + op[0])(*op[1:])


def alphabet(D, rng):
    """Operation instances for template D (a finite alphabet the histories are words over)."""
    n = D["n"]
    setup = [k for k in range(1, n + 1) if D["kind"][k - 1] == "setup"]
    reg = [k for k in range(1, n + 1) if D["kind"][k - 1] != "setup"]
    np_ = D["np"]
    full = [10 + p for p in range(np_)]
    omit = [full[p] if D["defaults"][p] == -1 else -1 for p in range(np_)]
    other = [20 + p for p in range(np_)]
    failing = list(other)
    failing[rng.randrange(np_)] = FAIL
    A = [("call", 1, full), ("call", 1, omit), ("call", 1, other), ("call", 1, failing)]
    if setup:
        A += [("setup", 1), ("setup", 1, -1, -1, mask([setup[-1]])), ("setup", 1, -1, -1, mask([setup[0]]))]
    leaf = reg[-1]
    mid = reg[0]
    A += [("exnew", 1, 1, -1, -1, mask([leaf])), ("exnew", 1, 2, -1, mask([leaf]), -1), ("exnew", 1, 1),
          ("exrun", 1, full), ("exrun", 1, failing), ("exrun", 2, other), ("exsetup", 1), ("exsetup", 2),
          ("copy", 1, 2), ("call", 2, full), ("call", 2, omit)]
    if setup:
        A += [("setup", 2)]
    ins, outs = D["compose"]
    A += [("compose", 1, ins, outs, [1] * len(ins)), ("config", 1, {reg[0]: 5, reg[-1]: -2})]
    if setup:
        A += [("gsetup", 1, 2)]
    # caching
    A += [("exnew", 1, 3, -1, -1, -1, mask([leaf]), 1), ("exrun", 3, full, 1), ("exrun", 3, other, 1),
          ("exnew", 1, 4, -1, -1, -1, -1, 2), ("exrun", 4, other, 2),
          ("exnew", 1, 4, -1, -1, mask([mid]), -1, 1), ("exrun", 4, full, 1),    # the same file rewritten with other content
          ("restart", 1, 1, -1, -1, mask([leaf])), ("restart", 1, 2), ("restart", 1, 2, -1, -1, mask([mid])),
          ("restart", 1, 1, -1, -1, -1, mask([leaf]))]
    # restarts whose selection starts at a root: what the re-run nodes need from outside the selection comes from the file
    roots = [k for k in range(1, n + 1) if not D["deps"][k - 1] and not D["const"][k - 1] and not D["argof"][k - 1]]
    A += [("restart", 1, 1, mask([r])) for r in roots[:2]]
    return A


def histories(D, rng, length, count=None):
    """Words over the alphabet: all of the given length (count=None) or `count` random ones.

    Random words are completed with the operations an operation presupposes (an executor must be
    created before it runs, a cache file written before a restart), so that most steps do something."""
    A = alphabet(D, rng)
    if count is None:
        return [list(w) for w in itertools.product(A, repeat=length)]
    exnew = {}
    for op in A:
        if op[0] == "exnew":
            exnew.setdefault(op[2], []).append(op)
    filler = {op[5] if len(op) > 5 else 0: None for op in A}
    out = []
    for _ in range(count):
        w = []
        made, files = set(), set()
        while len(w) < length:
            op = rng.choice(A)
            if op[0] == "exrun":
                x = op[1]
                if x not in made or rng.random() < 0.15:
                    new = rng.choice(exnew[x])
                    w.append(new)
                    made.add(x)
                w.append(op)
                if len(op) > 3 and op[3]:
                    files.add(op[3])
                if rng.random() < 0.35:
                    w.append(rng.choice([o for o in A if o[0] == "exrun" and o[1] == x]))   # run it again
            elif op[0] == "restart":
                f = op[2]
                if f not in files:
                    x = 3 if f == 1 else 4
                    w.append(rng.choice(exnew[x]))
                    w.append([o for o in A if o[0] == "exrun" and o[1] == x][0])
                    files.add(f)
                    made.add(x)
                w.append(op)
            elif op[0] == "exnew":
                w.append(op)
                made.add(op[2])
            else:
                w.append(op)
        out.append(w)
    return out


def scenarios(D, rng):
    """Structured histories that random words rarely produce: a cache file written, used, rewritten with
    other content and used again; executors run twice; setup between caching and restart."""
    A = alphabet(D, rng)
    news = {}
    for op in A:
        if op[0] == "exnew" and len(op) > 7 and op[7]:
            news.setdefault(op[7], []).append(op)
    runs = {}
    for op in A:
        if op[0] == "exrun":
            runs.setdefault(op[1], []).append(op)
    restarts = {}
    for op in A:
        if op[0] == "restart":
            restarts.setdefault(op[2], []).append(op)
    extra = [op for op in A if op[0] in ("call", "setup", "copy", "config")]
    out = []
    for f, writers in news.items():
        ws = [[w, r] for w in writers for r in runs[w[2]] if r[2][0] != FAIL and FAIL not in r[2]]
        for w1 in ws:
            for w2 in ws:
                for r1 in restarts.get(f, []):
                    for r2 in restarts.get(f, []):
                        out.append(w1 + [r1] + w2 + [r2])
                        if rng.random() < 0.3:
                            out.append(w1 + [rng.choice(extra), r1] + w2 + [rng.choice(extra), r2])
    # two instances set up at the same time (after / before other operations)
    if any(op[0] == "gsetup" for op in A):
        g = [op for op in A if op[0] == "gsetup"][0]
        cp = [op for op in A if op[0] == "copy"][0]
        for pre_ in [[], [op for op in A if op[0] == "setup"][1:2], [A[0]]]:
            out.append(pre_ + [cp, g, A[0], ("call", 2, A[0][2])])
            out.append([cp] + pre_ + [g, g])
    # an executor created with from_cache, something else happening on the DAG, then the executor runs
    between = [op for op in A if op[0] in ("setup", "call") and op[1] == 1]
    leafmask = [op for op in A if op[0] == "restart"]
    for f, writers in news.items():
        for w in writers:
            for r_ in runs[w[2]][:2]:
                if FAIL in r_[2]:
                    continue
                for rs in restarts.get(f, []):
                    sel = list(rs[3:7]) + [-1] * (4 - len(rs[3:7]))
                    new = ("exnew", 1, 2, sel[0], sel[1], sel[2], sel[3], 0, f)
                    for b in between:
                        out.append([w, r_, new, b, ("exrun", 2, r_[2])])
                        out.append([w, r_, new, ("exrun", 2, r_[2]), b])
    return out


def run_history(D, ops, is_async=False, sres="thread"):
    h = History(dict(D, sres=sres), is_async)
    try:
        for op in ops:
            try:
                h.apply(op)
            except BaseException as e:  # noqa: BLE001
                h.events.append({"op": "harness-error", "msg": repr(e)[:200]})
                break
    finally:
        h.close()
    return h.events


def _work(args):
    jobs = args
    out = []
    for job in jobs:
        d, ops, is_async = job[:3]
        sres = job[3] if len(job) > 3 else "thread"
        if POISONED:
            out.append({"d": d + 1, "ops": ops, "async": is_async, "sres": sres, "ev": [], "skipped": True})
            continue
        ev = run_history(TEMPLATES[d], ops, is_async, sres)
        out.append({"d": d + 1, "ops": ops, "async": is_async, "sres": sres, "ev": ev})
    if POISONED:
        import common
        common.arm_exit_if_threads_are_stuck()
    return out


def run_all(jobs, procs=12, chunk=30):
    import multiprocessing as mp

    chunks = [jobs[i:i + chunk] for i in range(0, len(jobs), chunk)]
    out = []
    pool = mp.get_context("fork").Pool(procs, maxtasksperchild=1)      # a fresh process per chunk: a hang poisons only its chunk
    hung, done = 0, 0
    skip = lambda j, **kw: dict({"d": j[0] + 1, "ops": j[1], "async": j[2], "sres": j[3] if len(j) > 3 else "thread", "ev": [], "skipped": True}, **kw)  # noqa: E731
    it = pool.imap(_work, chunks)
    try:
        while done < len(chunks):
            try:
                r = it.next(timeout=4 * OP_TIMEOUT + 60)
            except mp.TimeoutError:
                # the chunk that is due has not come back: an operation in it did not return and its time-out could not end it
                # (a scheduler spinning outside the reach of the alarm).  The histories of that chunk are reported as wedged -
                # e4.run turns them into a C09 violation - and the rest as skipped
                out.extend(skip(j, wedged=True) for j in chunks[done])
                for c in chunks[done + 1:]:
                    out.extend(skip(j) for j in c)
                break
            out.extend(r)
            done += 1
            hung += any(x.get("skipped") or any(e.get("out") == 6 for e in x["ev"]) for x in r)
            if hung >= 8:
                # a tree on which operations keep hanging: every hang costs its time-out, eight chunks are enough for the
                # verdict.  The histories that were not run are reported as skipped
                for c in chunks[done:]:
                    out.extend(skip(j) for j in c)
                break
    finally:
        pool.terminate()
    pool.join()
    return out


if __name__ == "__main__":
    import json
    import time

    rng = random.Random(1)
    jobs = []
    for d in range(len(TEMPLATES)):
        for ops in histories(TEMPLATES[d], rng, 5, 300):
            jobs.append((d, ops, False))
    t = time.time()
    res = run_all(jobs)
    print(len(jobs), "histories", sum(len(r["ev"]) for r in res), "events", round(time.time() - t, 1), "s")
    bad = [r for r in res if any(e["op"] == "harness-error" for e in r["ev"])]
    print("harness errors", len(bad), bad[:2])
    traces = [{"tid": k + 1, "d": r["d"], "ev": r["ev"]} for k, r in enumerate(res) if r["ev"] and r not in bad]
    json.dump({"dags": TEMPLATES, "traces": traces}, open("/tmp/e4.json", "w"))
