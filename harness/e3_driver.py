"""Engine E3 driver: selections (root / exclude / target), debug rules, setup restriction.

The harness only *generates* cases and *observes* the real library; what the outcome must be is
decided by spec/Selection.tla, evaluated by TLC on every observed row (spec/SelCheck.tla).
"""
import itertools
import os
import random
import sys
from copy import deepcopy

HERE = os.path.dirname(os.path.abspath(__file__))
if HERE not in sys.path:
    sys.path.insert(0, HERE)

os.environ["TAWAZI_VERIF"] = "1"
REPO = os.environ.get("VERIF_REPO", "/repo")
if REPO not in sys.path:
    sys.path.insert(0, REPO)

KINDS = ("reg", "setup", "debug")


def mask(nodes):
    m = 0
    for k in nodes:
        m |= 1 << (k - 1)
    return m


def legal(D):
    for k in range(1, D["n"] + 1):
        for d in D["deps"][k - 1]:
            if D["kind"][k - 1] != "debug" and D["kind"][d - 1] == "debug":
                return False
            if D["kind"][k - 1] == "setup" and D["kind"][d - 1] != "setup":
                return False
    return True


def desc_star(D, S):
    S = set(S)
    changed = True
    while changed:
        changed = False
        for k in range(1, D["n"] + 1):
            if k not in S and set(D["deps"][k - 1]) & S:
                S.add(k)
                changed = True
    return S


class Recorder:
    """Hook sink that only counts node entries."""

    def __init__(self):
        self.entered = {}
        self.aliases = [{"given": False, "als": []}] * 3

    def __call__(self, event, **f):
        if event == "node_enter":
            i = f["xn"].id
            self.entered[i] = self.entered.get(i, 0) + 1


def nested_ids(D):
    """Real ids of the nodes of a DAG realised through a nested DAG (D["nest"] = {"a", "b", "stubs": {stub: producer}}):
    nodes a..b live in the nested DAG `inner`; a stub is the pass-through node of one of its parameters."""
    nest = D["nest"]
    out = []
    for k in range(1, D["n"] + 1):
        if str(k) in nest["stubs"]:
            out.append(f"inner.inner>!>p{k}")
        elif nest["a"] <= k <= nest["b"]:
            out.append(f"inner.f{k}")
        else:
            out.append(f"f{k}")
    return out


def build_nested(D, res="main", mc=1):
    """The DAG D, described as an outer DAG that calls a nested DAG for the nodes a..b.  Every node of D is a node of the
    flattened graph: an inner node that uses a result of the outer DAG does so through a parameter of the nested DAG, whose
    pass-through stub is the (regular, one-input) node D lists for it."""
    from tawazi import dag, xn, Resource

    resource = {"main": Resource.main_thread, "thread": Resource.thread, "async": Resource.async_thread}[res]
    nest = D["nest"]
    a, b, stubs = nest["a"], nest["b"], {int(k): v for k, v in nest["stubs"].items()}
    xs = {}
    for k in range(1, D["n"] + 1):
        if k in stubs:
            continue

        def mk(k=k):
            def f(*args):
                return ("v", k)
            f.__qualname__ = f.__name__ = f"f{k}"
            return f
        xs[k] = xn(mk(), debug=D["kind"][k - 1] == "debug", setup=D["kind"][k - 1] == "setup", resource=resource)
    inner_lines = []
    for k in range(a, b + 1):
        if k in stubs:
            inner_lines.append(f"    v{k} = p{k}")
        else:
            parts = [f"v{d}" for d in D["deps"][k - 1]] + (["7"] if D["const"][k - 1] else [])
            inner_lines.append(f"    v{k} = X[{k}]({', '.join(parts)})")
    params = [f"p{k}" for k in sorted(stubs)]
    inner_ret = ", ".join(f"v{k}" for k in range(a, b + 1))
    src = f"def inner({', '.join(params)}):\n" + "\n".join(inner_lines) + f"\n    return ({inner_ret},)\n"
    env = {"X": xs}
    exec(compile(src, "<e3 inner>", "exec"), env)  # noqa: S102
    inner = dag(env["inner"], max_concurrency=mc)
    lines = []
    for k in range(1, a):
        parts = [f"v{d}" for d in D["deps"][k - 1]] + (["7"] if D["const"][k - 1] else [])
        lines.append(f"    v{k} = X[{k}]({', '.join(parts)})")
    call_args = ", ".join(f"v{stubs[k]}" for k in sorted(stubs))
    lines.append(f"    ({', '.join(f'v{k}' for k in range(a, b + 1))},) = INNER({call_args})")
    for k in range(b + 1, D["n"] + 1):
        parts = [f"v{d}" for d in D["deps"][k - 1]] + (["7"] if D["const"][k - 1] else [])
        lines.append(f"    v{k} = X[{k}]({', '.join(parts)})")
    ret = ", ".join(f"v{k}" for k in range(1, D["n"] + 1))
    src = "def describe():\n" + "\n".join(lines) + f"\n    return ({ret},)\n"
    env = {"X": xs, "INNER": inner}
    exec(compile(src, "<e3 outer>", "exec"), env)  # noqa: S102
    d = dag(env["describe"], max_concurrency=mc)
    return d, nested_ids(D), xs


def nested_dags(rng, count):
    """DAG descriptions realised through a nested DAG: 1-2 outer nodes, 1-2 parameters (stubs) fed by them, 2-3 inner nodes
    (regular and debug) that read stubs and one another, 0-1 outer node behind.  The flattened graph IS the description, so
    Selection.tla applies as it stands; what differs from a flat DAG is only the ids (prefix, parameter names)."""
    out = []
    tries = 0
    while len(out) < count and tries < count * 30:
        tries += 1
        nb = rng.randint(1, 2)
        ns = rng.randint(1, 2)
        ni = rng.randint(2, 3)
        na = rng.randint(0, 1)
        n = nb + ns + ni + na
        deps, kind, stubs = [], [], {}
        for k in range(1, nb + 1):
            deps.append(sorted(rng.sample(range(1, k), rng.randint(0, k - 1))))
            kind.append("reg")
        for k in range(nb + 1, nb + ns + 1):
            j = rng.randint(1, nb)
            deps.append([j])
            kind.append("reg")
            stubs[str(k)] = j
        a, b = nb + 1, nb + ns + ni
        for k in range(nb + ns + 1, b + 1):
            pool = list(range(nb + 1, k))
            deps.append(sorted(rng.sample(pool, rng.randint(1, min(2, len(pool))))))
            kind.append(rng.choice(["reg", "debug", "debug"]))
        for k in range(b + 1, n + 1):
            pool = list(range(1, nb + 1)) + list(range(nb + ns + 1, b + 1))
            deps.append(sorted(rng.sample(pool, rng.randint(1, min(2, len(pool))))))
            kind.append(rng.choice(["reg", "debug"]))
        D = {"n": n, "deps": deps, "kind": kind, "const": [False] * n, "tags": {}, "nest": {"a": a, "b": b, "stubs": stubs}, "focus": "debugchain"}
        if legal(D) and any(x == "debug" for x in kind):
            out.append(D)
    return out


def build(D, res="main", mc=1):
    """Build the real DAG for D. Returns (dag, ids) or raises what the library raises."""
    from tawazi import dag, xn, Resource

    if D.get("nest"):
        return build_nested(D, res, mc)

    resource = {"main": Resource.main_thread, "thread": Resource.thread, "async": Resource.async_thread}[res]
    xs = {}
    for k in range(1, D["n"] + 1):
        def mk(k=k):
            def f(*a):
                return ("v", k)
            f.__qualname__ = f.__name__ = f"f{k}"
            return f
        tags = D.get("tags", {}).get(str(k)) or None
        if k in (D.get("calltag") or []):
            tags = None         # this node gets its tags where it is called (twz_tag), not where it is decorated
        # a node with ONE tag declares it as a plain string (tag="t") on some DAGs, as a tuple (tag=("t",)) on others
        one = tags[0] if tags and len(tags) == 1 and D.get("plaintag") else None
        xs[k] = xn(mk(), debug=D["kind"][k - 1] == "debug", setup=D["kind"][k - 1] == "setup",
                   resource=resource, tag=one if one is not None else (tuple(tags) if tags else None))
    lines = []
    sa = D.get("setuparg", 0)       # a setup node that takes an argument of the DAG: must be refused when the DAG is built
    for k in range(1, D["n"] + 1):
        parts = [f"v{d}" for d in D["deps"][k - 1]]
        if D["const"][k - 1]:
            parts.append("7")
        if sa == k:
            parts.append("p")
        ad = D.get("actdep") or [0, 0]
        if ad[0] == k:
            parts.append(f"twz_active=v{ad[1]}")          # an activation flag is a dependency like any argument
        if k in (D.get("calltag") or []) and D.get("tags", {}).get(str(k)):
            ct = D["tags"][str(k)]
            parts.append(f"twz_tag={(ct[0] if len(ct) == 1 and D.get('plaintag') else tuple(ct))!r}")
        lines.append(f"    v{k} = X[{k}]({', '.join(parts)})")
    # some return positions are an indexed usage of the node's result (("v", k)[1] == k): an unexecuted node reads as None there too
    idx = D.get("idxret") or []
    ret = ", ".join((f"v{k}[1]" if k in idx else f"v{k}") for k in range(1, D["n"] + 1))
    src = f"def describe({'p=1' if sa else ''}):\n" + "\n".join(lines) + f"\n    return ({ret},)\n"
    env = {"X": xs}
    exec(compile(src, "<e3>", "exec"), env)  # noqa: S102
    d = dag(env["describe"], max_concurrency=mc)
    ids = [f"f{k}" for k in range(1, D["n"] + 1)]
    return d, ids, xs


def express(D, d, xs, S, rng, forms):
    """Express the node set S as a list of aliases (id / reference / tag). Returns (aliases for the API, their
    description for the specification: [c, s, n] with c = "str" (a string: tag or id) or "ref" (node n))."""
    if S is None:
        return None, {"given": False, "als": []}
    tags = D.get("tags", {})
    out, desc = [], []
    todo = set(S)
    if "grp" in forms:
        grp = {int(k) for k, t in tags.items() if "grp" in t}
        if grp and grp <= todo and rng.random() < 0.7:
            out.append("grp")
            desc.append({"c": "str", "s": "grp", "n": 0})
            todo -= grp
    for k in sorted(todo):
        form = rng.choice(forms)
        shadow = [int(b) for b, t in tags.items() if f"f{k}" in t]   # another node is tagged with this node's id
        own = [t for t in tags.get(str(k), []) if t != "grp"]        # includes a tag that equals another node's id
        if form == "tag" and own:
            t = own[-1] if rng.random() < 0.6 else own[0]
            out.append(t)
            desc.append({"c": "str", "s": t, "n": 0})
        elif D.get("nest"):
            # ids of nested nodes carry the prefix: name them by reference (a node the built DAG lacks is named by the id it
            # should have: the library then refuses the selection, and a whole-DAG call does not execute it - both are judged)
            nid = nested_ids(D)[k - 1]
            out.append(d.exec_nodes.get(nid, nid))
            desc.append({"c": "ref", "s": "", "n": k})
        elif form == "ref" or shadow:
            out.append(d.exec_nodes[f"f{k}"] if rng.random() < 0.5 else xs[k])
            desc.append({"c": "ref", "s": "", "n": k})
        else:
            out.append(f"f{k}")
            desc.append({"c": "str", "s": f"f{k}", "n": 0})
    order = list(range(len(out)))
    rng.shuffle(order)
    return [out[i] for i in order], {"given": True, "als": [desc[i] for i in order]}


def observe(D, base, ids, xs, mode, pre, R, X, T, bogus, flag, rng, forms):
    """Run one case on a fresh copy of the DAG; returns (err, g, e, dup, ret, bad)."""
    from tawazi import cfg, _verif

    n = D["n"]
    d = deepcopy(base) if any(k == "setup" for k in D["kind"]) else base
    rec = Recorder()
    cfg.RUN_DEBUG_NODES = bool(flag)
    err, g, ret, bad = 0, -1, 0, 0
    try:
        if pre:
            _verif.sink = None
            d.setup()
        _verif.sink = rec
        r, rd = express(D, d, xs, R, rng, forms)
        x, xd = express(D, d, xs, X, rng, forms)
        t, td = express(D, d, xs, T, rng, forms)
        if bogus:
            t = (t or []) + ["no-such-node"]
            td = {"given": True, "als": td["als"] + [{"c": "str", "s": "no-such-node", "n": 0}]}
        rec.aliases = [rd, xd, td]
        try:
            if mode == 0:
                if r is None and x is None and t is not None and not bogus and rng.random() < 0.3:
                    # the same selection given as cache_deps_of (with a cache file): the run executes what the named nodes
                    # need, themselves included - debug nodes only when the flag is on
                    import tempfile
                    cache = os.path.join(tempfile.gettempdir(), f"e3-cache-{os.getpid()}.pkl")
                    ex = d.executor(cache_deps_of=t, cache_in=cache)
                else:
                    cache = None
                    ex = d.executor(target_nodes=t, exclude_nodes=x, root_nodes=r)
                try:
                    g = mask(ids.index(i) + 1 for i in ex.graph.nodes if i in ids)
                except Exception:  # noqa: BLE001
                    g = -1
                out = ex()
                if cache and os.path.exists(cache):
                    os.remove(cache)
            elif mode == 1:
                d.setup(target_nodes=t, exclude_nodes=x, root_nodes=r)
                out = None
            else:
                out = d()
            if out is not None:
                for k, v in enumerate(out, 1):
                    if v is None:
                        continue
                    ret |= 1 << (k - 1)
                    stubs = (D.get("nest") or {}).get("stubs") or {}
                    want = ("v", stubs[str(k)]) if str(k) in stubs else (k if k in (D.get("idxret") or []) else ("v", k))
                    if v != want:
                        bad |= 1 << (k - 1)
        except ValueError:
            err = 1
        except BaseException as exc:  # noqa: BLE001
            err = 2
            rec.exc = repr(exc)[:200]
    finally:
        _verif.sink = None
        cfg.RUN_DEBUG_NODES = False
    e = mask(ids.index(i) + 1 for i in rec.entered if i in ids)
    dup = mask(ids.index(i) + 1 for i, c in rec.entered.items() if i in ids and c > 1)
    if any(i not in ids for i in rec.entered):
        err = 2  # an argument holder executed: arguments are always supplied here
    observe.aliases = rec.aliases
    return [err, g, e, dup, ret, bad]


def selections(D, rng, limit):
    """(R, X, T, bogus) tuples for D; X is kept inside the part selected by R (the quantifier)."""
    n = D["n"]
    nodes = list(range(1, n + 1))
    if D.get("focus") == "debugchain":
        # chains of debug nodes below the selected leaves: every non-empty set of non-debug nodes as targets
        plain = [k for k in nodes if D["kind"][k - 1] != "debug"]
        out = [(None, None, list(c), 0) for r in range(1, len(plain) + 1) for c in itertools.combinations(plain, r)]
        out += [(None, [x], None, 0) for x in nodes] + [(None, [x], [t], 0) for x in nodes for t in plain if t != x][:8]
        return out
    subs = [None] + [list(c) for r in range(0, n + 1) for c in itertools.combinations(nodes, r)]
    out = []
    for R in subs:
        inside = nodes if R is None else sorted(desc_star(D, R))
        xs = [None] + [list(c) for r in range(0, len(inside) + 1) for c in itertools.combinations(inside, r)]
        for X in xs:
            for T in subs:
                out.append((R, X, T, 0))
    if limit is not None and len(out) > limit:
        out = rng.sample(out, limit)
    out += [(None, None, rng.choice(subs), 1)]
    return out


def run_dag(D, rng, limit, forms=("id", "ref", "tag", "grp")):
    """All observations for one DAG description; returns the JSON record for SelCheck."""
    rec = {"n": D["n"], "deps": D["deps"], "kind": D["kind"], "const": D["const"], "tags": D.get("tags", {}),
           "obs": [], "als": [], "built": True, "setuparg": D.get("setuparg", 0), "idxret": D.get("idxret") or [], "calltag": D.get("calltag") or [], "actdep": D.get("actdep") or [0, 0], "plaintag": bool(D.get("plaintag")), "nest": D.get("nest") or {},
           "tagseq": [D.get("tags", {}).get(str(k), []) for k in range(1, D["n"] + 1)]}
    try:
        base, ids, xs = build(D, res=D.get("res", "main"), mc=D.get("mc", 1))
    except BaseException as exc:  # noqa: BLE001
        rec["built"] = False
        rec["build_error"] = repr(exc)[:200]
        return rec
    if not legal(D) or D.get("setuparg") or D.get("actdep"):
        return rec
    setup_nodes = [k for k in range(1, D["n"] + 1) if D["kind"][k - 1] == "setup"]
    sels = selections(D, rng, limit)
    for (R, X, T, bogus) in sels:
        modes = [0]
        if setup_nodes and rng.random() < 0.5:
            modes.append(1)
        for mode in modes:
            for pre in ([0, 1] if setup_nodes and rng.random() < 0.5 else [0]):
                seed = rng.random()
                off = observe(D, base, ids, xs, mode, pre, R, X, T, bogus, 0, random.Random(seed), forms)
                on = observe(D, base, ids, xs, mode, pre, R, X, T, bogus, 1, random.Random(seed), forms)
                rec["obs"].append([mode, mask(setup_nodes) if pre else 0,
                                   -1 if R is None else mask(R), -1 if X is None else mask(X),
                                   -1 if T is None else mask(T), bogus] + off + on)
                rec["als"].append(observe.aliases)
    for pre in ([0, 1] if setup_nodes else [0]):
        off = observe(D, base, ids, xs, 2, pre, None, None, None, 0, 0, rng, forms)
        on = observe(D, base, ids, xs, 2, pre, None, None, None, 0, 1, rng, forms)
        rec["obs"].append([2, mask(setup_nodes) if pre else 0, -1, -1, -1, 0] + off + on)
        rec["als"].append([{"given": False, "als": []}] * 3)
    return rec


def dag_space(n, rng, const_mode="sample", with_illegal=True):
    """DAG descriptions on n nodes: all shapes x all kind assignments (x constant-argument patterns)."""
    import sched_driver as sd

    out = []
    for shape in sd.all_shapes(n):
        for kinds in itertools.product(KINDS, repeat=n):
            D = {"n": n, "deps": shape, "kind": list(kinds), "const": [False] * n}
            if not legal(D) and not with_illegal:
                continue
            consts = [[False] * n]
            if const_mode == "all":
                consts = [list(c) for c in itertools.product([False, True], repeat=n)]
            elif rng.random() < 0.4:
                consts.append([rng.random() < 0.4 for _ in range(n)])
            for c in consts:
                D2 = dict(D, const=c)
                tags = {str(k): [f"t{k}"] for k in range(1, n + 1)}
                if rng.random() < 0.4 and n >= 2:
                    for k in rng.sample(range(1, n + 1), 2):
                        tags[str(k)].append("grp")
                if rng.random() < 0.3 and n >= 2:
                    a, b = rng.sample(range(1, n + 1), 2)
                    tags[str(b)].append(f"f{a}")     # a tag equal to another node's id: the tag wins
                if rng.random() < 0.4 and n >= 2:
                    # names contained in one another: the only tag of b contains a's tag / a's id as a proper substring, and
                    # tags are written as plain strings - an alias selects by equality, never by containment
                    a, b = rng.sample(range(1, n + 1), 2)
                    if len(tags[str(b)]) == 1:
                        tags[str(b)] = [rng.choice([f"t{a}x", f"xt{a}", f"f{a}0", f"xf{a}"])]
                    D2["plaintag"] = True
                elif rng.random() < 0.3:
                    D2["plaintag"] = True
                D2["tags"] = tags
                if rng.random() < 0.4:
                    D2["calltag"] = [k for k in range(1, n + 1) if rng.random() < 0.5]
                if rng.random() < 0.4:
                    D2["idxret"] = [k for k in range(1, n + 1) if rng.random() < 0.5]
                if rng.random() < 0.15:
                    D2["res"], D2["mc"] = "thread", 2
                out.append(D2)
                # a node whose activation flag is the result of a node it may not depend on (debug -> non-debug, non-setup -> setup)
                for (kk, jj) in [(a, b) for a in range(2, n + 1) for b in range(1, a)]:
                    bad_debug = kinds[jj - 1] == "debug" and kinds[kk - 1] != "debug"
                    bad_setup = kinds[kk - 1] == "setup" and kinds[jj - 1] != "setup"
                    if (bad_debug or bad_setup) and legal(D2) and jj not in shape[kk - 1] and rng.random() < 0.5:
                        out.append(dict(D2, actdep=[kk, jj]))
                setups = [k for k in range(1, n + 1) if kinds[k - 1] == "setup"]
                if setups and legal(D2) and rng.random() < 0.3:
                    out.append(dict(D2, setuparg=rng.choice(setups)))
    return out


def debug_chain_dags(n, rng, count):
    """DAGs on n nodes in which a debug node depends on another debug node and on something else (C03 / C13: the
    fixed point that takes runnable debug nodes along with a sub-graph run)."""
    import sched_driver as sd

    out = []
    for shape in sd.all_shapes(n):
        for nreg in range(1, n - 1):
            kinds = ["reg"] * nreg + ["debug"] * (n - nreg)
            D = {"n": n, "deps": shape, "kind": kinds, "const": [False] * n, "tags": {}, "focus": "debugchain"}
            if not legal(D):
                continue
            if not any(kinds[k - 1] == "debug" and len(shape[k - 1]) >= 2 and any(kinds[d - 1] == "debug" for d in shape[k - 1])
                       for k in range(1, n + 1)):
                continue
            out.append(D)
    return out if len(out) <= count else rng.sample(out, count)


def _work(args):
    Ds, limit, seed = args
    rng = random.Random(seed)
    return [run_dag(D, rng, limit) for D in Ds]


def run_all(Ds, limit, seed, procs=12, chunk=6):
    import multiprocessing as mp

    chunks = [(Ds[i:i + chunk], limit, seed * 1000003 + i) for i in range(0, len(Ds), chunk)]
    out = []
    pool = mp.get_context("fork").Pool(procs, maxtasksperchild=20)
    for r in pool.imap(_work, chunks):
        out.extend(r)
    pool.close()
    pool.join()
    return out


if __name__ == "__main__":
    import json
    import time

    rng = random.Random(1)
    Ds = dag_space(3, rng)
    t = time.time()
    recs = run_all(Ds, int(sys.argv[1]) if len(sys.argv) > 1 else 30, 1)
    print(len(Ds), "dags", sum(len(r["obs"]) for r in recs), "rows", sum(1 for r in recs if not r["built"]), "unbuilt",
          round(time.time() - t, 1), "s")
    json.dump({"dags": recs}, open("/tmp/e3.json", "w"))
