"""Engine E2: generator of describing functions (programs) in the supported fragment (DESIGN I4).

A program is plain JSON (see spec/Dataflow.tla for the structure).  Generation is typed loosely so
that most programs do not raise in plain Python; the ones that do are recognised by the
specification (err) and excluded from the equivalence.
"""
import random

# ---------------------------------------------------------------- values
def vint(n): return {"k": "i", "i": int(n), "s": [], "x": "", "ks": []}
def vbool(b): return {"k": "b", "i": int(bool(b)), "s": [], "x": "", "ks": []}
def vnone(): return {"k": "n", "i": 0, "s": [], "x": "", "ks": []}
def vstr(x): return {"k": "s", "i": 0, "s": [], "x": x, "ks": []}
def vtup(q): return {"k": "t", "i": 0, "s": list(q), "x": "", "ks": []}
def vlist(q): return {"k": "l", "i": 0, "s": list(q), "x": "", "ks": []}
def vdict(ks, q): return {"k": "d", "i": 0, "s": list(q), "x": "", "ks": list(ks)}
def verr(): return {"k": "err", "i": 0, "s": [], "x": "", "ks": []}
def vgrid(rows): return {"k": "g", "i": 0, "s": list(rows), "x": "", "ks": []}


class Grid:
    """A container with the indexing convention of numpy / pandas (the value kind "g" of spec/Dataflow.tla):
    g[i] is row i (a list), g[[i, j]] the list of the rows i and j (a LIST key selects several rows), g[i, j] the cell at
    row i, column j (a TUPLE key addresses one cell).  It has no length and no truth value of its own (always true)."""

    def __init__(self, rows):
        self.rows = [list(r) for r in rows]

    def __getitem__(self, key):
        if isinstance(key, list):
            return [list(self.rows[i]) for i in key]
        if isinstance(key, tuple):
            i, j = key
            return self.rows[i][j]
        return list(self.rows[key])

    def __eq__(self, other):
        return isinstance(other, Grid) and self.rows == other.rows

    def __ne__(self, other):
        return not self == other

    __hash__ = None

    def __repr__(self):
        return f"Grid({self.rows!r})"


def encode(v):
    """Python value -> uniform JSON value."""
    if v is None:
        return vnone()
    if isinstance(v, bool):
        return vbool(v)
    if isinstance(v, int):
        return vint(v)
    if isinstance(v, str):
        return vstr(v)
    if isinstance(v, tuple):
        return vtup(encode(x) for x in v)
    if isinstance(v, list):
        return vlist(encode(x) for x in v)
    if isinstance(v, dict):
        ks = list(v.keys())
        return vdict(ks, (encode(v[k]) for k in ks))
    if isinstance(v, Grid):
        return vgrid(encode(r) for r in v.rows)
    return {"k": "err", "i": 0, "s": [], "x": repr(v)[:40], "ks": []}


def decode(j):
    k = j["k"]
    if k == "i":
        return j["i"]
    if k == "b":
        return bool(j["i"])
    if k == "n":
        return None
    if k == "s":
        return j["x"]
    if k == "t":
        return tuple(decode(x) for x in j["s"])
    if k == "l":
        return [decode(x) for x in j["s"]]
    if k == "d":
        return {a: decode(b) for a, b in zip(j["ks"], j["s"])}
    if k == "g":
        return Grid(decode(x) for x in j["s"])
    raise ValueError(j)


def key_i(i): return {"k": "i", "i": i, "x": "", "q": []}
def key_s(x): return {"k": "s", "i": 0, "x": x, "q": []}
def key_li(q): return {"k": "li", "i": 0, "x": "", "q": list(q)}      # obj[[i, j]]: a list key
def key_ti(q): return {"k": "ti", "i": 0, "x": "", "q": list(q)}      # obj[i, j]: a tuple key
def r_const(v): return {"c": "const", "v": encode(v), "n": 0, "path": []}
def r_param(n, path=()): return {"c": "param", "v": vnone(), "n": n, "path": list(path)}
def r_site(n, path=()): return {"c": "site", "v": vnone(), "n": n, "path": list(path)}
def r_none(): return {"c": "none", "v": vnone(), "n": 0, "path": []}


FLAG_VALUES = [0, "", [], None, False, 1, "x", [0], True]
INT_VALUES = [0, 1, 2, 7]
PAIR_VALUES = [(1, (2, 1)), (0, (5, 0)), ("a", (3, "a")), ([], (4, []))]      # the shape of pair(c, x) = (x, (c, x))


def value_for(ptype, rng):
    """An argument value for a parameter of the given type ("int", "any", "pair")."""
    if ptype == "grid":
        return Grid([[1, 2], [3, 4], [5, 6]])
    return rng.choice({"int": INT_VALUES, "pair": PAIR_VALUES}.get(ptype, FLAG_VALUES))
BINOPS = ["add", "sub", "mul", "lt", "ge", "eq", "ne", "floordiv", "mod"]


class Gen:
    def __init__(self, rng, depth=0, max_depth=2, allow_flags=True, nparams=None, nsites=None, p_sub=0.2, p_param_ret=0.1, focus=None, first_ptype=None, p_debug=0.0):
        self.rng = rng
        self.depth = depth
        self.max_depth = max_depth
        self.allow_flags = allow_flags
        self.p_sub = p_sub
        self.p_param_ret = p_param_ret
        self.first_ptype = first_ptype
        self.p_debug = p_debug     # share of DAGs (at every nesting level) that end with one or two debug call sites
        self.focus = focus        # "flagged-sub": the first call site is a flagged nested DAG that hands a default straight back
        self.nparams = rng.randint(0, 3) if nparams is None else nparams
        self.nsites = rng.randint(1, 6) if nsites is None else nsites
        self.const_no = 100 * (depth + 1)

    # typed pools of references: "int" (an int for sure), "any"
    def gen(self):
        rng = self.rng
        params, ptypes = [], []
        for p in range(self.nparams):
            t = rng.choice(["int", "int", "any", "any", "pair"])
            if p == 0 and self.first_ptype:
                t = self.first_ptype
            has = rng.random() < 0.4
            if p > 0 and params[-1]["has"]:
                has = True          # python: parameters after a defaulted one need defaults
            dv = value_for(t, rng)
            params.append({"has": has, "v": encode(dv)})
            ptypes.append(t)
        self.params, self.ptypes = params, ptypes
        self.ints = [r_param(p + 1) for p in range(self.nparams) if ptypes[p] == "int"]
        self.anys = [r_param(p + 1) for p in range(self.nparams)]
        self.pairs = []         # references whose value has the shape (x, (c, x)): they can be indexed, also when they are parameters
        for p in range(self.nparams):
            if ptypes[p] == "pair":
                self.pairs.append(r_param(p + 1))
                # the parameter indexed in the body (p[0], p[1], p[1][0]): twice over when the argument is an indexed result
                self.anys += [r_param(p + 1, [key_i(0)]), r_param(p + 1, [key_i(1)]), r_param(p + 1, [key_i(1), key_i(0)])]
                self.ints.append(r_param(p + 1, [key_i(1), key_i(0)]))
            if ptypes[p] == "grid":
                # a grid handed to a nested DAG whose body indexes it with list / tuple / int keys
                q = rng.sample(range(3), rng.randint(1, 3))
                self.anys += [r_param(p + 1, [key_li(q)]), r_param(p + 1, [key_li(q), key_i(0)]), r_param(p + 1, [key_ti([rng.randrange(3), rng.randrange(2)])]),
                              r_param(p + 1, [key_i(rng.randrange(3))])]
        self.sites, self.subs = [], []
        self.flagged = False
        self.setups = []        # references to results of the setup call sites of this DAG
        self.flagpool = []      # elements of earlier results that are flag-like: several calls gated by parts of one result
        self.typed = {"s": [], "t": [], "l": [], "d": []}    # results that are a str / tuple / list / dict for sure
        self.whole_subs = []
        if self.focus == "indexed-arg-sub" and self.depth == 0:
            self.seed_indexed_pair()
        if self.focus == "grid" and self.depth == 0:
            self.seed_grid()
        for _ in range(self.nsites):
            self.add_site()
        if rng.random() < self.p_debug and self.sites:
            # debug call sites: they read results, nothing reads them (a non-debug node may not depend on one), they are not
            # returned.  They run in a whole-DAG call when RUN_DEBUG_NODES is on (and the DAG they belong to is active)
            for _ in range(rng.randint(1, 2)):
                self.sites.append({"kind": "call", "fn": "mix", "args": [self.unique_const()] + [self.any_ref() for _ in range(rng.randint(1, 2))],
                                   "kw": [], "active": r_none(), "unpack": 0, "sub": 0, "setup": False, "debug": True})
        ret = self.gen_ret()
        if self.focus == "indexed-arg-sub" and self.depth == 0 and len(self.sites) >= 3 and self.sites[2]["kind"] == "sub":
            # what the nested DAG computed from its indexed parameter must be visible in the returned value
            Q = self.subs[self.sites[2]["sub"] - 1]
            shape = Q["ret"]["shape"]
            outs = ([r_site(3)] if shape == "single" else
                    [r_site(3, [key_s(k)]) for k in Q["ret"]["keys"]] if shape == "dict" else
                    [r_site(3, [key_i(x)]) for x in range(len(Q["ret"]["refs"]))])
            refs = outs + (ret["refs"][:2] if ret and ret["shape"] in ("tuple", "list") else [])
            ret = {"shape": "tuple", "refs": refs, "keys": []}
        if self.focus == "eq-default-sub" and self.depth == 0 and self.sites and self.sites[0]["kind"] == "sub":
            Q = self.subs[self.sites[0]["sub"] - 1]
            last = len(Q["ret"]["refs"]) - 1
            out = r_site(1, [key_s(Q["ret"]["keys"][last])]) if Q["ret"]["shape"] == "dict" else r_site(1, [key_i(last)])
            refs = [out] + (ret["refs"][:2] if ret and ret["shape"] in ("tuple", "list") else [])
            ret = {"shape": "tuple", "refs": refs, "keys": []}
        if self.focus == "grid" and self.depth == 0:
            # what the usages with list / tuple / int keys delivered must be visible in the returned value
            refs = [r_site(2)] + (ret["refs"][:2] if ret and ret["shape"] in ("tuple", "list") else [])
            ret = {"shape": "tuple", "refs": refs, "keys": []}
        return {"params": params, "ptypes": ptypes, "sites": self.sites, "ret": ret, "subs": self.subs}

    def seed_grid(self):
        """s1 = mkgrid(c, x, y), a container that tells a list key from a tuple key; s2 = mix(c, s1[[i, j]], s1[i, j], s1[i]).
        The usages of s1 with list keys, tuple keys and int keys (also followed by further keys) join the pool the other
        call sites (nested DAGs and activation flags among them) draw from."""
        rng = self.rng
        base = {"kind": "call", "kw": [], "active": r_none(), "unpack": 0, "sub": 0, "setup": False}
        self.sites.append(dict(base, fn="mkgrid", args=[self.unique_const(), self.any_ref(), self.any_ref()]))
        rows = [rng.sample(range(3), rng.randint(1, 3)) for _ in range(3)]
        cells = [[rng.randrange(3), rng.randrange(2)] for _ in range(3)]
        uses = [r_site(1)]
        for q in rows:
            uses += [r_site(1, [key_li(q)]), r_site(1, [key_li(q), key_i(len(q) - 1)]), r_site(1, [key_li(q), key_i(0), key_i(rng.randrange(2))])]
        for q in cells:
            uses.append(r_site(1, [key_ti(q)]))
        uses += [r_site(1, [key_i(rng.randrange(3))]), r_site(1, [key_i(rng.randrange(3)), key_i(rng.randrange(2))])]
        self.anys += uses
        self.flagpool += [r_site(1, [key_ti(q)]) for q in cells]
        self.sites.append(dict(base, fn="mix", args=[self.unique_const(), r_site(1, [key_li(rows[0])]), r_site(1, [key_ti(cells[0])]), uses[-2]]))
        self.anys += [r_site(2), r_site(2, [key_i(1)])]
        self.typed["t"].append(r_site(2))
        if rng.random() < 0.5 and self.depth < self.max_depth:
            self.add_sub_site(dict(base, fn="mix", args=[]), 3, pair_arg=r_site(1), arg_type="grid")

    def seed_indexed_pair(self):
        """s1 = pair(c, x); s2 = mix(c, s1); then a nested DAG called (no flag) with s2[1] for a parameter that its body indexes
        again: the two index paths (the caller's and the body's) are applied in the order they were written."""
        rng = self.rng
        base = {"kind": "call", "kw": [], "active": r_none(), "unpack": 0, "sub": 0, "setup": False}
        self.sites.append(dict(base, fn="pair", args=[self.unique_const(), self.int_ref()]))
        self.anys += [r_site(1), r_site(1, [key_i(0)]), r_site(1, [key_i(1)])]
        self.pairs.append(r_site(1))
        self.sites.append(dict(base, fn="mix", args=[self.unique_const(), r_site(1), self.any_ref()]))
        self.anys += [r_site(2), r_site(2, [key_i(1)])]
        self.pairs.append(r_site(2, [key_i(1)]))
        site = dict(base, fn="mix", args=[])
        self.add_sub_site(site, 3, pair_arg=r_site(2, [key_i(1)]))

    def any_ref(self):
        rng = self.rng
        c = rng.random()
        if self.anys and c < 0.7:
            return rng.choice(self.anys)
        if c < 0.85:
            return r_const(rng.choice(INT_VALUES))
        return r_const(rng.choice(FLAG_VALUES + [(1, 2), {"a": 1}]))

    def int_ref(self):
        rng = self.rng
        if self.ints and rng.random() < 0.75:
            return rng.choice(self.ints)
        return r_const(rng.choice(INT_VALUES + [3, 5]))

    def unique_const(self):
        self.const_no += 1
        return r_const(self.const_no)

    def maybe_flag(self):
        rng = self.rng
        if not self.allow_flags or rng.random() > 0.3:
            return r_none()
        self.flagged = True
        c = rng.random()
        if c < 0.2:
            return r_const(rng.choice(FLAG_VALUES))
        if self.flagpool and c < 0.65:
            return rng.choice(self.flagpool)
        return self.any_ref()

    def add_site(self):
        rng = self.rng
        j = len(self.sites) + 1
        site = {"kind": "call", "fn": "mix", "args": [], "kw": [], "active": r_none(), "unpack": 0, "sub": 0, "setup": False}
        if self.focus == "flagged-sub" and self.depth == 0 and not self.sites:
            self.add_sub_site(site, j, force=True)
            return
        if self.focus == "eq-default-sub" and self.depth == 0 and not self.sites:
            self.add_sub_site(site, j, eqdef=True)
            return
        if rng.random() < (0.12 if self.depth == 0 else 0.08):
            # a setup call site: constants and results of other setup sites only; computed once per DAG object
            site["setup"] = True
            pick = lambda: rng.choice(self.setups) if self.setups and rng.random() < 0.6 else r_const(rng.choice(INT_VALUES))  # noqa: E731
            kind = rng.random()
            if kind < 0.25:
                # a setup result that is a mutable object (a list / a dict) the DAG keeps between calls: operators applied to
                # it in the body (also the augmented ones, r += x) never change what the next call sees
                site["fn"] = "mklist"
                site["args"] = [self.unique_const(), pick(), pick()]
                self.setups += [r_site(j), r_site(j, [key_i(2)])]
                self.anys += [r_site(j), r_site(j, [key_i(2)])]
                self.ints.append(r_site(j, [key_i(2)]))
                self.typed["l"].append(r_site(j))
            elif kind < 0.4:
                site["fn"] = "mkdict"
                site["args"] = [self.unique_const(), pick()]
                self.setups += [r_site(j), r_site(j, [key_s("a")])]
                self.anys += [r_site(j), r_site(j, [key_s("a")]), r_site(j, [key_s("b")])]
                self.typed["d"].append(r_site(j))
            else:
                site["args"] = [self.unique_const()] + [pick() for _ in range(rng.randint(0, 2))]
                self.setups += [r_site(j), r_site(j, [key_i(0)])]
                self.anys += [r_site(j), r_site(j, [key_i(0)])]
                self.ints.append(r_site(j, [key_i(0)]))
            self.sites.append(site)
            return
        flag = self.maybe_flag()          # drawn first: a site can not refer to itself
        n_ints = len(self.ints)
        c = rng.random()
        if c < self.p_sub and self.depth < self.max_depth:
            self.add_sub_site(site, j)
            return
        unflagged = flag["c"] == "none"
        if rng.random() < 0.12:
            # operators on results that are not numbers: + is concatenation, | merges dicts (neither commutes)
            kinds = [k for k in "stld" if self.typed[k]]
            if kinds and rng.random() < 0.7:
                k = rng.choice(kinds)
                a = rng.choice(self.typed[k])
                lit = {"s": ["x", "yz", ""], "t": [(1, 2), (0,), ()], "l": [[0], [1, 2], []], "d": [{"a": 1, "z": 2}, {"b": 0}, {}]}[k]
                b = rng.choice(self.typed[k]) if rng.random() < 0.3 else r_const(rng.choice(lit))
                if rng.random() < 0.5:
                    a, b = b, a          # reflected form: the literal on the left
                op = "bor" if k == "d" else "add"
                site["kind"], site["fn"], site["args"] = "op", op, [a, b]
                kept = a["c"] == "site" and not a["path"] and self.sites[a["n"] - 1].get("setup")
                site["aug"] = a["c"] != "const" and rng.random() < (0.8 if kept else 0.3)
                self.typed[k].append(r_site(j))
                self.anys.append(r_site(j))
            else:
                site["fn"], site["args"] = "label", [self.unique_const()]
                site["active"] = flag
                if unflagged:
                    self.typed["s"].append(r_site(j))
                self.anys.append(r_site(j))
            self.sites.append(site)
            return
        c = rng.random()
        if c < 0.08 and self.allow_flags:
            # a result whose parts have different truthiness, used as activation flags further down
            site["fn"] = "mix"
            site["args"] = [self.unique_const()] + [r_const(rng.choice(FLAG_VALUES)) if rng.random() < 0.6 else self.any_ref()
                                                    for _ in range(rng.randint(2, 3))]
            if rng.random() < 0.4:
                site["unpack"] = len(site["args"])
            else:
                self.anys.append(r_site(j))
            for x in range(len(site["args"])):
                self.flagpool.append(r_site(j, [key_i(x)]))
                self.anys.append(r_site(j, [key_i(x)]))
        elif c < 0.3:
            site["fn"] = "mix"
            site["args"] = [self.unique_const()] + [self.any_ref() for _ in range(rng.randint(0, 2))]
            if self.pairs and rng.random() < 0.35:
                site["args"].append(rng.choice(self.pairs))
            if rng.random() < 0.3:
                names = rng.sample(["ka", "kb"], rng.randint(1, 2))
                site["kw"] = [{"name": nm, "ref": self.any_ref()} for nm in sorted(names)]
            self.anys.append(r_site(j))
            if unflagged:
                self.typed["t"].append(r_site(j))
                for x in range(1, len(site["args"])):
                    if site["args"][x] in self.pairs:
                        self.pairs.append(r_site(j, [key_i(x)]))        # an INDEXED result of the shape (x, (c, x))
            for x in range(1, len(site["args"])):
                if rng.random() < 0.3:
                    self.anys.append(r_site(j, [key_i(x)]))
        elif c < 0.45:
            site["fn"] = "pair"
            inner = self.int_ref() if rng.random() < 0.6 else self.any_ref()
            site["args"] = [self.unique_const(), inner]
            is_int = inner in self.ints or (inner["c"] == "const" and inner["v"]["k"] == "i")
            if rng.random() < 0.5:
                site["unpack"] = 2
            first = r_site(j, [key_i(0)])
            self.anys += [first, r_site(j, [key_i(1)])]
            if is_int:
                self.ints.append(first)
            if not site["unpack"]:
                self.anys.append(r_site(j))
                if unflagged:
                    self.typed["t"] += [r_site(j), r_site(j, [key_i(1)])]
                    self.pairs.append(r_site(j))
            if unflagged and is_int is not None:
                # (c, x) is not of the shape (x, (c, x)); a pair of a pair is: pair(c, pair(..))[0]
                if inner in self.pairs:
                    self.pairs.append(first)
        elif c < 0.55:
            site["fn"] = "mkdict"
            inner = self.int_ref() if rng.random() < 0.5 else self.any_ref()
            site["args"] = [self.unique_const(), inner]
            self.anys += [r_site(j), r_site(j, [key_s("a")]), r_site(j, [key_s("b")]), r_site(j, [key_s("b"), key_i(1)])]
            if inner in self.ints or (inner["c"] == "const" and inner["v"]["k"] == "i"):
                self.ints.append(r_site(j, [key_s("a")]))
            if unflagged:
                self.typed["d"].append(r_site(j))
                self.typed["t"].append(r_site(j, [key_s("b")]))
        elif c < 0.6:
            site["fn"] = "mklist"
            site["args"] = [self.unique_const(), self.any_ref(), self.any_ref()]
            self.anys += [r_site(j), r_site(j, [key_i(0)]), r_site(j, [key_i(2)])]
            if unflagged:
                self.typed["l"].append(r_site(j))
        elif c < 0.65:
            site["fn"] = "ident"
            site["args"] = [self.any_ref()]
            self.anys.append(r_site(j))
        elif c < 0.87:
            op = rng.choice(BINOPS)
            a, b = self.int_ref(), self.int_ref()
            if a["c"] == "const" and b["c"] == "const" and self.ints:
                if rng.random() < 0.5:
                    a = rng.choice(self.ints)
                else:
                    b = rng.choice(self.ints)        # reflected form: constant on the left
            if a["c"] == "const" and b["c"] == "const":
                site["fn"], site["args"] = "ident", [self.any_ref() if self.anys else self.unique_const()]
                if site["args"][0]["c"] == "const":
                    site["fn"], site["args"] = "mix", [self.unique_const()]
            else:
                if op in ("floordiv", "mod"):
                    b = r_const(rng.choice([1, 2, 3, 5]))      # a positive constant divisor: no division by zero
                    if a["c"] == "const":
                        a = rng.choice(self.ints)
                site["kind"], site["fn"], site["args"] = "op", op, [a, b]
                site["aug"] = op in ("add", "sub", "mul", "floordiv", "mod") and a["c"] != "const" and rng.random() < 0.3
                if op in ("add", "sub", "mul", "floordiv", "mod"):
                    self.ints.append(r_site(j))
            self.anys.append(r_site(j))
        elif c < 0.9:
            if self.ints:
                site["kind"], site["fn"], site["args"] = "op", rng.choice(["neg", "abs"]), [rng.choice(self.ints)]
                self.ints.append(r_site(j))
            else:
                site["fn"], site["args"] = "ident", [self.any_ref()]
            self.anys.append(r_site(j))
        else:
            fn = rng.choice(["and", "or", "not"])
            site["kind"], site["fn"] = "logic", fn
            site["args"] = [self.any_ref()] if fn == "not" else [self.any_ref(), self.any_ref()]
            self.anys.append(r_site(j))
        if site["unpack"] and rng.random() < 0.4:
            site["declunpack"] = True       # @xn(unpack_to=n) instead of twz_unpack_to=n at the call
        if site["kind"] in ("call", "logic"):
            site["active"] = flag
        if site["active"]["c"] != "none":
            # a deactivated call yields None: its result is no longer an int for sure
            self.ints = self.ints[:n_ints]
        self.sites.append(site)

    def add_sub_site(self, site, j, force=False, pair_arg=None, arg_type="pair", eqdef=False):
        rng = self.rng
        reuse = bool(self.subs) and rng.random() < 0.15 and not force and pair_arg is None and not eqdef
        want_flag = ((self.allow_flags and rng.random() < 0.25) or force) and pair_arg is None and not eqdef
        if reuse:
            sub_idx = rng.randrange(len(self.subs)) + 1
            Q = self.subs[sub_idx - 1]
            if want_flag and Q["_flagged"]:
                want_flag = False
        else:
            # a flagged nested DAG often hands a parameter straight back: deactivated, that output is None as well
            ppr = 0.4 if want_flag else 0.1
            g = Gen(rng, self.depth + 1, self.max_depth, allow_flags=not want_flag and self.allow_flags,
                    nparams=rng.randint(0, 3) if pair_arg is None else rng.randint(1, 2), nsites=rng.randint(1, 4), p_sub=self.p_sub, p_param_ret=ppr,
                    first_ptype=arg_type if pair_arg is not None else None, p_debug=self.p_debug)
            Q = g.gen()
            tries = 0
            while Q["ret"] is None and tries < 20:
                g = Gen(rng, self.depth + 1, self.max_depth, allow_flags=not want_flag and self.allow_flags,
                        nparams=rng.randint(0, 3) if pair_arg is None else rng.randint(1, 2), nsites=rng.randint(1, 4), p_sub=self.p_sub, p_param_ret=ppr,
                        first_ptype=arg_type if pair_arg is not None else None, p_debug=self.p_debug)
                Q = g.gen()
                tries += 1
            if Q["ret"] is None:
                site["fn"], site["args"] = "mix", [self.unique_const()]
                self.anys.append(r_site(j))
                self.sites.append(site)
                return
            Q["_flagged"] = g.flagged
            self.flagged = self.flagged or g.flagged
            self.subs.append(Q)
            sub_idx = len(self.subs)
        if force:
            # make sure there is a defaulted last parameter and a return with several positions
            if not Q["params"] or not Q["params"][-1]["has"]:
                Q["params"].append({"has": True, "v": encode(rng.choice(INT_VALUES + ["d", (1, 2)]))})
                Q["ptypes"].append("any")
            if Q["ret"]["shape"] == "single":
                Q["ret"]["shape"] = rng.choice(["tuple", "list", "dict"])
        required = sum(1 for p in Q["params"] if not p["has"])
        nargs = rng.randint(required, len(Q["params"]))
        if want_flag and not reuse and (force or rng.random() < 0.5) and required < len(Q["params"]) and Q["ret"]["shape"] != "single":
            # a flagged nested DAG that hands a defaulted parameter straight back, and a caller that leaves it out:
            # deactivated, that output is None like the others - whatever the shape of the return
            Q["ret"]["refs"].append(r_param(len(Q["params"])))
            if Q["ret"]["shape"] != "dict" and rng.random() < 0.5:
                Q["ret"]["shape"] = "dict"
            if Q["ret"]["shape"] == "dict":
                Q["ret"]["keys"] = ["k%d" % x for x in range(len(Q["ret"]["refs"]))]
            nargs = rng.randint(required, len(Q["params"]) - 1)
        eq_const = None
        if eqdef:
            # a nested DAG whose last parameter has a default, called with an explicit constant that is EQUAL to the default
            # without being the same value (True == 1, 0 == False): the explicit argument is what the body sees.  The
            # parameter is handed straight back so that the value is visible
            dflt, eq_const = rng.choice([(1, True), (0, False), (True, 1), (False, 0)])
            Q["params"].append({"has": True, "v": encode(dflt)})
            Q["ptypes"].append("any")
            if Q["ret"]["shape"] == "single":
                Q["ret"]["shape"] = rng.choice(["tuple", "list"])
            Q["ret"]["refs"].append(r_param(len(Q["params"])))
            if Q["ret"]["shape"] == "dict":
                Q["ret"]["keys"] = ["k%d" % x for x in range(len(Q["ret"]["refs"]))]
            nargs = len(Q["params"])
        args = []
        if pair_arg is not None:
            nargs = max(nargs, 1)
        for p in range(nargs):
            if eq_const is not None and p == nargs - 1:
                args.append(r_const(eq_const))
            elif p == 0 and pair_arg is not None:
                args.append(pair_arg)
            elif Q["ptypes"][p] == "pair":
                # an argument that is itself an indexed result (pair(..)[0] of a pair of a pair) whenever there is one
                args.append(rng.choice(self.pairs) if self.pairs and rng.random() < 0.8 else r_const(rng.choice(PAIR_VALUES)))
            else:
                args.append(self.int_ref() if Q["ptypes"][p] == "int" else self.any_ref())
        site.update({"kind": "sub", "fn": "", "args": args, "sub": sub_idx})
        if want_flag:
            site["active"] = self.any_ref() if rng.random() < 0.7 else r_const(rng.choice(FLAG_VALUES[:5] if force else FLAG_VALUES))
            self.flagged = True
        shape = Q["ret"]["shape"]
        if shape != "single" and site["active"]["c"] == "none":
            self.whole_subs.append(r_site(j))      # the tuple / list / dict of a nested DAG, only ever handed straight back
        if shape == "single":
            self.anys.append(r_site(j))
        elif shape in ("tuple", "list"):
            for x in range(len(Q["ret"]["refs"])):
                self.anys.append(r_site(j, [key_i(x)]))
        elif shape == "dict":
            for kname in Q["ret"]["keys"]:
                self.anys.append(r_site(j, [key_s(kname)]))
        self.sites.append(site)

    def gen_ret(self):
        rng = self.rng
        shape = rng.choice(["single", "tuple", "tuple", "list", "dict", "none"] if self.depth == 0 else ["single", "tuple", "tuple", "list", "dict"])
        site_refs = [r for r in self.anys if r["c"] == "site"]
        if not site_refs:
            return {"shape": "none", "refs": [], "keys": []} if self.depth == 0 else None

        def one():
            c = rng.random()
            if c < 0.9 - self.p_param_ret:
                return rng.choice(site_refs)
            if c < 0.9 and self.nparams:
                return r_param(rng.randint(1, self.nparams))     # a parameter handed straight back (also by a nested DAG)
            if self.depth > 0 and rng.random() < 0.7:
                return rng.choice(site_refs)                     # (a literal in the return of a nested DAG can not be built: C20 known finding)
            return r_const(rng.choice([0, 5, "k", None]))
        if shape == "none":
            return {"shape": "none", "refs": [], "keys": []}
        if shape == "single":
            if self.depth == 0 and rng.random() < 0.04:
                return {"shape": "single", "refs": [r_const(rng.choice([0, 5, "k", None, (1, 2)]))], "keys": []}      # return 5
            if self.depth == 0 and self.whole_subs and rng.random() < 0.35:
                return {"shape": "single", "refs": [rng.choice(self.whole_subs)], "keys": []}      # return sub(...)
            return {"shape": "single", "refs": [rng.choice(site_refs)], "keys": []}
        n = rng.randint(1, 3)
        refs = [one() for _ in range(n)]
        # every executed site should be visible in some return position when possible
        if shape in ("tuple", "list") and self.depth == 0 and rng.random() < 0.6:
            whole = [r for r in site_refs if not r["path"]]
            refs = [r for r in whole if not self.sites[r["n"] - 1]["unpack"]][:6] or refs
        keys = ["k%d" % x for x in range(len(refs))] if shape == "dict" else []
        return {"shape": shape, "refs": refs, "keys": keys}


def gen_program(rng, **kw):
    g = Gen(rng, **kw)
    P = g.gen()
    P["_flagged"] = g.flagged
    return P


def gen_args(P, rng, how="random"):
    """An argument tuple for the outermost call (some calls omit defaulted arguments)."""
    n = len(P["params"])
    required = sum(1 for p in P["params"] if not p["has"])
    k = rng.randint(required, n) if rng.random() < 0.8 else n
    out = []
    for p in range(k):
        out.append(value_for(P["ptypes"][p], rng))
    return out


def strip(P, dbg=True):
    """Remove the generator's private fields (TLC reads the rest).  dbg=False: the variant of the program that describes a
    run with RUN_DEBUG_NODES off - a debug call site is then a call site that is switched off (nothing reads its result)."""
    Q = {k: v for k, v in P.items() if not k.startswith("_") and k != "ptypes"}
    Q["sites"] = [dict(s, debug=bool(s.get("debug")), active=r_const(False) if s.get("debug") and not dbg else s["active"])
                  for s in P["sites"]]
    Q["subs"] = [strip(s, dbg) for s in P["subs"]]
    return Q


def has_debug(P):
    return any(s.get("debug") for s in P["sites"]) or any(has_debug(Q) for Q in P["subs"])
