#!/usr/bin/env python3
"""Regenerate /verif/MANIFEST.json from the table below (kept valid at all times)."""
import json
import os
import subprocess

VERIF = os.path.dirname(os.path.dirname(os.path.abspath(__file__)))
props = [json.loads(l) for l in open(os.path.join(VERIF, "properties.jsonl"))]
log = subprocess.run(["git", "-C", "/repo", "log", "--format=%h %s"], capture_output=True, text=True).stdout.splitlines()
hooks = [l.split()[0] for l in log if l.split(" ", 1)[1].startswith("verif hooks")]

E = {
 "E1": ("harness/e1.py", "scheduler: TLC model checking of spec/Scheduler.tla against spec/SchedObs.tla, schedule-exhaustive controlled executions of the real scheduler through the hooks, each validated by TLC against spec/SchedTrace.tla"),
 "E4": ("harness/e4.py", "life-cycle: histories of operations (calls, failing calls, setup, executors, re-runs, deep copies, compose, config reload, caching runs, restarts) on real DAG instances; every step validated by TLC against spec/Lifecycle.tla through spec/LifecycleTrace.tla; the implementation-shaped machine spec/LifecycleMC.tla is model-checked over all histories up to a length bound, and behaviours TLC generates from it (spec/LifecycleHist.tla, simulation mode) are replayed on the real library and the executed sets compared"),
 "E2": ("harness/e2.py", "recorder and dataflow: generated describing functions (all argument forms, indexing, unpack_to, operators, and_/or_/not_, return shapes, nested DAGs, activation flags) run on the real library under random configurations; TLC evaluates the reference semantics spec/Dataflow.tla on every observation (spec/DfCheck.tla) and explores all schedules of the abstract results map (spec/DataflowMC.tla)"),
 "E2C": ("harness/e2c.py", "compose: spec/Compose.tla evaluated by TLC (spec/CompCheck.tla) on compositions of generated flat programs run on the real library; every composed DAG is also called inside an outer DAG (C20) and the original is called again afterwards (C15)"),
 "E5": ("harness/e5.py", "concurrency of the library itself: spec/BuildLock.tla model-checked (both readings of 'am I describing?'), build scenarios with real threads validated as traces (spec/BuildLockTrace.tla), simultaneous calls from several threads and gathered awaits of one AsyncDAG compared with spec/Dataflow.tla, loop-liveness probe (also on the error paths: failed and cancelled awaits); spec/BuildLockProof.tla: inductive invariant of the build lock proved with TLAPS for any number of threads and call sites"),
 "E3": ("harness/e3.py", "graph algebra: spec/Selection.tla and spec/CompoundPriority.tla evaluated by TLC (spec/SelCheck.tla, spec/CpCheck.tla) on every observation of executor / setup / call selections, debug settings, priority tables and mc=1 orders made on the real library"),
}
CHECKS = {
 # prop: (engine, level text, note, technique)
 **{p: ("E1",
        "TLC checks the implementation-shaped model spec/Scheduler.tla against the property predicates of spec/SchedObs.tla for every configuration inside small bounds; every schedule of the real scheduler for thousands of configurations is driven through the hooks and each recorded execution is validated by TLC against spec/SchedTrace.tla, which evaluates the same predicates in every state of the trace",
        "trusted: TLC, the hook call sites, the controller owning all completion-order nondeterminism; bounds: model N<=3 (quick) / N<=4 (thorough); code: all schedules of sampled configurations N<=3 plus random N<=8",
        "TLA+ model checking (TLC) + TLC trace validation of controlled executions of the real scheduler")
    for p in ["C02", "C03", "C04", "C05", "C06", "C08", "C09", "C14"]},
 **{p: ("E3",
        "the documented outcome is defined once, in TLA+ (spec/Selection.tla, spec/CompoundPriority.tla); the harness enumerates DAG shapes x node kinds x selections (and priority vectors x hash seeds) exhaustively for small sizes, observes the real library and TLC evaluates the specification on every observation (one state per row), including lemmas of the algebra",
        "trusted: TLC, the node_enter hook, the harness's case enumeration; bounds: shapes up to 4 nodes (selections) / 5 nodes (compound priority); selections per DAG are sampled in the quick tier",
        "TLA+ specification as executable oracle (TLC) over exhaustively enumerated small cases observed on the real library")
    for p in ["C07", "C12", "C13"]},
 **{p: ("E4",
        "spec/Lifecycle.tla defines the abstract state a DAG instance, an executor and a cache file carry between operations and what every operation must observe; the harness runs thousands of operation histories on the real library (three template DAGs, sync and async) and TLC validates every step of every history (spec/LifecycleTrace.tla), naming the violated clause",
        "trusted: TLC, the node_enter / exec_begin hooks, the harness's comparison of returned values with a freshly built DAG; C15 also runs engine E2C (the original DAG is called again after every composition); bounds: four template DAGs, all histories of length <= 2 over a 27-operation alphabet (sampled in the quick tier) plus random histories up to length ~9",
        "TLC trace validation of operation histories against an explicit TLA+ state machine of the library's life-cycle")
    for p in ["C11", "C15", "C18"]},
 **{p: ("E2",
        "the sequential reference semantics of describing functions is written in TLA+ (Eval in spec/Dataflow.tla); TLC explores every schedule of the abstract write-once results map for flat programs and shows the returned value equals Eval (spec/DataflowMC.tla); thousands of generated programs x argument tuples x configurations are run on the real library and TLC compares every returned value and executed call-site set with Eval (spec/DfCheck.tla); a plain-Python evaluation is a cross-check of the oracle",
        "trusted: TLC, the node_enter hook, the JSON encoding of values; bounds: generated programs up to 8 call sites and nesting depth 3, a closed value domain (ints, bools, None, strings, tuples, lists, dicts); real schedules are not controlled here (see E1)",
        "TLA+ reference semantics as executable oracle (TLC) over generated programs run on the real library + TLC model checking of schedule independence")
    for p in ["C01", "C10", "C20"]},
 "C19": ("E2C",
        "spec/Compose.tla defines, for a flat program, the closure the outputs need (stopping at the inputs), the caller errors and the evaluation with the supplied values substituted; thousands of (program, inputs, outputs, values) cases are run through compose on the real library and TLC compares error class, returned value and executed call sites with the specification (spec/CompCheck.tla); the original DAG is run before and after and must be unchanged",
        "trusted: TLC, the node_enter hook; bounds: flat generated programs up to 6 call sites, 0-3 inputs or Ellipsis, 1-3 outputs, id and node-reference aliases",
        "TLA+ specification of compose as executable oracle (TLC) over generated cases observed on the real library"),
 "C16": ("E5",
        "TLC model-checks spec/BuildLock.tla (builders pausing between call sites, DAG callers, callers of decorated functions; the invariants hold when 'describing' means 'this thread holds the build lock' and fail for the lock-state test the pinned tree used); every scenario 'a builder paused before call site p while other threads call a DAG / call a decorated function / start another build' is run with real threads and its trace validated by TLC (spec/BuildLockTrace.tla); 2-4 threads calling one DAG simultaneously with different arguments are compared with the reference semantics (spec/DfCheck.tla)",
        "trusted: TLC, pause points inside user code as the interleaving granularity; instruction-level races inside tawazi are not reachable by this technique (DESIGN section 9)",
        "TLA+ model checking of the build lock + TLC trace validation of thread scenarios + reference-semantics check of simultaneous calls"),
 "C17": ("E5",
        "the same generated programs run as DAG and AsyncDAG are both compared with the reference semantics by TLC (engine E2: value and executed call sites; engine E4: setup results over histories); 2-4 awaits of one AsyncDAG gathered in one loop with different arguments are each compared with the reference semantics; a sibling coroutine must be served while async-thread nodes are running",
        "trusted: TLC, the hooks; loop liveness is checked for DAGs whose nodes all use the async-thread resource; completion orders of gathered awaits are randomised, not enumerated",
        "TLA+ reference semantics as oracle (TLC) for sync/async equivalence and gathered awaits + loop-liveness probe"),
}
ALSO = {
 "C02": "also engines E2 (clause C02.value-through-indexing: generated programs that use results and parameters through index paths - int, string, list and tuple keys - also across nested DAG calls) and E4 (clause C02.restart-argument: a restart from a cache file called with other arguments)",
 "C03": "also engines E4 (entry counters over operation histories) and E3 (exactly the selection is entered; runnable debug nodes are taken along)",
 "C04": "also engine E2 (clause C04.thread: thread identity of every entered node of generated programs, nested DAGs included, against the resource the harness asked for)",
 "C06": "also engine E3 (clause C06.order: mc=1 execution orders of described, reloaded and composed DAGs against the documented compound priority)",
 "C09": "also engine E4 (every operation of every history returns or raises; concurrent and failing setup())",
 "C11": "also engine E3 (setup(...) with selections; build-time refusals)",
 "C13": "also engine E2 (clause C13.call-exec: debug call sites of generated programs, nested DAGs included, in plain calls with the flag on and off)",
 "C15": "also engines E2C (the original is called again after every composition) and E2 (the last of several calls on one object equals a fresh build's call)",
 "C17": "also engines E2 (sync / async equivalence of generated programs; coroutines created first, awaited in turn) E1 (blocking wait on an async-thread node) and E4 (clause C17.flavours-differ: the same history on a DAG and on the AsyncDAG built from the same function, compared operation by operation)",
 "C20": "also engine E2C (every composed DAG is called inside an outer DAG)",
}
checks = []
for p in sorted(CHECKS):
    eng, text, note, tech = CHECKS[p]
    if p in ALSO:
        note = note + "; " + ALSO[p]
    checks.append({
        "property_id": p,
        "quick_cmd": f"/venv/bin/python /verif/harness/check.py {p} --tier quick",
        "thorough_cmd": f"/venv/bin/python /verif/harness/check.py {p} --tier thorough",
        "evidence_file": f"/verif/evidence/{p}.json",
        "replay_cmd_template": f"/venv/bin/python /verif/harness/check.py {p} --replay {{path}}",
        "engine": eng,
        "level_claimed": {"category": "model_checking", "text": text, "design_ref": "DESIGN.md sections 6 and 7"},
        "level_note": note,
        "technique": tech,
    })
m = {
 "version": 1,
 "setup_cmd": "true",
 "hooks": {"guard": "TAWAZI_VERIF",
           "enable": "TAWAZI_VERIF=1 in the environment of the harness processes (pure Python, no build step; harness/rt.py sets it before importing tawazi from $VERIF_REPO, default /repo)",
           "baseline_off_cmd": "cd /repo && env -u TAWAZI_VERIF /venv/bin/python -m pytest -ra -q -p no:cacheprovider --timeout=900 --continue-on-collection-errors",
           "source_commits": hooks, "add_only": True},
 "engines": [{"name": e, "path": E[e][0], "serves_properties": sorted(p for p in CHECKS if CHECKS[p][0] == e), "kind_free_text": E[e][1]} for e in sorted(E)],
 "checks": checks,
 "notes": "checks share engine runs through /verif/.cache (keyed on the sources of $VERIF_REPO/tawazi, spec/, harness/, tier, seed); harness/selftest.py applies mutants/*.patch to a scratch worktree and checks that the designated checks fail",
 "not_applicable": [{"property_id": p["id"], "reason": "check not built yet (work in progress, see DESIGN.md section 12)"} for p in props if p["id"] not in CHECKS],
}
json.dump(m, open(os.path.join(VERIF, "MANIFEST.json"), "w"), indent=1)
print("checks:", [c["property_id"] for c in checks], "n/a:", [x["property_id"] for x in m["not_applicable"]])
