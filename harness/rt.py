"""Runtime of the scheduler harness (engine E1): hook sink, gates, controller, DAG builder.

One *controlled run* executes a real tawazi DAG built from a configuration while this module
owns every source of scheduling nondeterminism the scheduler can observe:

* every pooled node (thread / async-thread resource) blocks in its `node_enter` hook (a gate)
  until the controller releases it, so "which in-flight node finishes next" is a decision;
* decisions are taken at the points where the scheduler can learn something: when it is about
  to block in a wait primitive, and when it enters an inline (main-thread) node;
* a decision is an index into the deterministically ordered list of options; a run is driven
  by a *script* (list of indices, default 0) and reports the *trail* (number of options and
  choice at every decision) so that a stateless depth-first search can enumerate all schedules.

Events are numbered under one lock, in the emitting thread (never wall-clock).
"""
import asyncio
import itertools
import os
import sys
import threading
import time
from concurrent.futures import ALL_COMPLETED, wait as cf_wait

os.environ["TAWAZI_VERIF"] = "1"
REPO = os.environ.get("VERIF_REPO", "/repo")
if REPO not in sys.path:
    sys.path.insert(0, REPO)

import tawazi  # noqa: E402
from tawazi import _verif, dag, xn, Resource  # noqa: E402
from tawazi.errors import TawaziBaseException  # noqa: E402

assert os.path.realpath(tawazi.__file__).startswith(os.path.realpath(REPO)), (tawazi.__file__, REPO)
assert _verif.ENABLED

RES = {"thread": Resource.thread, "async": Resource.async_thread, "main": Resource.main_thread}
RES_INV = {v: k for k, v in RES.items()}

# generous: on the unchanged tree none of these is ever consumed (every expected node arrives at once); they only
# bound the time spent on executions that are already wrong, and must not fire on a loaded machine
GATE_ARRIVE_TIMEOUT = float(os.environ.get("VERIF_GATE_ARRIVE", "6.0"))
STALL_TIMEOUT = float(os.environ.get("VERIF_STALL", "12.0"))
PATIENCE = float(os.environ.get("VERIF_PATIENCE", "0.65"))
HANG_TIMEOUT = float(os.environ.get("VERIF_HANG", "25.0"))
MAX_EVENTS = 3000  # per execution; the largest legitimate executions here produce a few hundred

_NONCE = itertools.count(1)


class Injected(Exception):
    """The failure a `bad` node raises."""

    def __init__(self, node):
        super().__init__(f"injected failure in node {node}")
        self.node = node


class HarnessAbort(BaseException):
    """Raised from a hook to abort a run the harness has classified (hang, protocol error)."""


class Tok:
    """Value returned by a harness node: carries producer, run nonce and configured truthiness."""

    __slots__ = ("k", "nonce", "truthy")

    def __init__(self, k, nonce, truthy=True):
        self.k, self.nonce, self.truthy = k, nonce, truthy

    def __bool__(self):
        return self.truthy

    def __eq__(self, o):
        return isinstance(o, Tok) and (self.k, self.nonce) == (o.k, o.nonce)

    def __hash__(self):
        return hash((self.k, self.nonce))

    def __repr__(self):
        return f"Tok({self.k},{self.nonce},{self.truthy})"


_tls = threading.local()


def subsets(items, max_size=None, nonempty=False):
    items = list(items)
    out = []
    top = len(items) if max_size is None else min(max_size, len(items))
    for r in range(1 if nonempty else 0, top + 1):
        out.extend(itertools.combinations(items, r))
    return out


class Controller:
    """Hook sink + gates + decision procedure for one controlled history (several executions)."""

    def __init__(self, idx_of, script=(), max_subset=None, max_bg=None, bad=(), truthy=None, patient=False):
        self.idx_of = idx_of  # node id -> 1-based index
        # patient: at a blocking wait on thread futures nothing is released for PATIENCE seconds first, so that a wait that
        # gives up by itself (a timeout in the scheduler) is seen returning with nothing finished
        self.patient = patient
        self.thread_tok = None
        self.gave_up = False
        self.script = list(script)
        self.pos = 0
        self.trail = []
        self.max_subset = max_subset
        self.max_bg = max_bg
        self.bad = set(bad)
        self.truthy = truthy or {}
        self.nonce = next(_NONCE)
        self.lock = threading.RLock()
        self.cv = threading.Condition(self.lock)
        self.events = []
        self.gates = {}
        self.at_gate = set()
        self.released = set()
        self.exited = {}
        self.entered = {}
        self.recv = {}
        self.dispatched = {}
        self.started_async = set()
        self.op_events = 0
        self.in_call = False
        self.helper_token = {"released": False, "abandoned": False}
        self.tokens = []
        self.mc = 1
        self.sched_thread = None
        self.invoker = threading.get_ident()
        self.open_all = False
        self.last_event = time.monotonic()
        self.active = False
        self.helper = None
        self.anomalies = []
        self.diverged = []
        self.in_wait = None
        self.execs = 0

    def reset_exec(self):
        """Forget per-execution bookkeeping (a history may run several executions on one DAG)."""
        with self.cv:
            self.gates, self.at_gate, self.released = {}, set(), set()
            self.exited, self.entered, self.recv, self.dispatched = {}, {}, {}, {}
            self.started_async = set()
            self.op_events = 0
            self.open_all = False
            self.helper = None
            self.in_wait = None

    # ---------------------------------------------------------------- event log
    def log(self, e, n=0, k="", m="", s=(), b=False, r=()):
        with self.cv:
            self.events.append({"e": e, "n": n, "k": k, "m": m, "s": sorted(s), "b": bool(b), "r": list(r)})
            self.last_event = time.monotonic()
            self.op_events += 1
            self.cv.notify_all()
            runaway = self.op_events == MAX_EVENTS and self.in_call
        if runaway:
            # the scheduler keeps producing events without ever finishing: a spin (C09), not progress
            with self.cv:
                self.events.append({"e": "hang", "n": 0, "k": "runaway-events", "m": "", "s": [], "b": False, "r": []})
            self.release_everything()
            if threading.get_ident() == self.sched_thread:
                raise HarnessAbort("hang: runaway event stream")
        elif self.in_call and self.op_events > MAX_EVENTS and threading.get_ident() == self.sched_thread:
            raise HarnessAbort("hang: runaway event stream")

    def ix(self, id_):
        return self.idx_of.get(id_, 0)

    # ---------------------------------------------------------------- decisions
    def decide(self, point, options):
        """Pick options[script[pos]] (default 0) and record the trail."""
        n = len(options)
        if n == 0:
            return None
        if n == 1:
            return options[0]
        c = self.script[self.pos] if self.pos < len(self.script) else 0
        if c >= n:
            # the replayed prefix met a smaller option set than the run the script was derived from: the execution went a
            # different way (still a real execution - its trace is validated like any other); the explorer retries the script
            self.diverged.append(f"script choice {c} out of range {n} at decision {self.pos} ({point})")
            c = 0
        self.pos += 1
        self.trail.append((n, c))
        return options[c]

    # ---------------------------------------------------------------- gate handling
    def _wait_gate_arrival(self, ids, timeout=None, capacity=True):
        """Wait until every id in ids is at its gate or has exited; returns the set that is at the gate."""
        deadline = time.monotonic() + (GATE_ARRIVE_TIMEOUT if timeout is None else timeout)
        with self.cv:
            while True:
                missing = [i for i in ids if i not in self.at_gate and i not in self.exited]
                if not missing:
                    break
                # the pool has max_concurrency workers: once that many node functions are inside, nobody else can arrive
                # (counted from the gates, not from the entry events: a node that has just entered reaches its gate at once)
                inside = {i for i in self.at_gate | self.released if i not in self.exited and self.dispatched.get(i) != "main"}
                if capacity and len(inside) >= self.mc:
                    break
                left = deadline - time.monotonic()
                if left <= 0:
                    break
                self.cv.wait(left)
            return {i for i in ids if i in self.at_gate and i not in self.released}

    def _settle(self):
        """Wait until every node that must reach a gate has reached it; return those gated now.

        Thread nodes are handed to the pool at dispatch; an async-thread node reaches the pool once
        the event loop has run after its task was created (marked at every asyncio wait)."""
        with self.cv:
            expected = [i for i, k in self.dispatched.items()
                        if i not in self.exited and (k == "thread" or i in self.started_async)]
        return self._wait_gate_arrival(expected)

    def _release(self, ids):
        with self.cv:
            for i in ids:
                self.released.add(i)
                self.gates[i].set()

    def _wait_exit(self, ids, timeout=HANG_TIMEOUT):
        deadline = time.monotonic() + timeout
        with self.cv:
            while any(i not in self.exited for i in ids):
                left = deadline - time.monotonic()
                if left <= 0:
                    self.anomalies.append(f"released nodes did not exit: {[i for i in ids if i not in self.exited]}")
                    return False
                self.cv.wait(left)
        return True

    def pooled_in_flight(self, kinds=("thread", "async")):
        with self.cv:
            return [i for i, k in self.dispatched.items() if k in kinds and i not in self.exited]

    def release_everything(self):
        with self.cv:
            self.open_all = True
            for i, g in self.gates.items():
                self.released.add(i)
                g.set()
            self.cv.notify_all()

    # ---------------------------------------------------------------- the sink
    def __call__(self, event, **f):
        getattr(self, "on_" + event)(**f)

    def mine(self, token):
        """The event belongs to an execution this controller has seen begin (a worker thread left over from an
        earlier, failed run of the same process may still enter nodes: those events are not part of this history)."""
        return any(token is t for t in self.tokens)

    def on_exec_begin(self, graph, exec_nodes, results, max_concurrency):
        self.tokens += [results, graph]
        self.sched_thread = threading.get_ident()
        self.mc = max_concurrency
        self.execs += 1
        nodes = sorted(self.ix(i) for i in graph.nodes)
        self.log("exec_begin", n=max_concurrency, s=nodes, b=(self.sched_thread == self.invoker))
        self.graph_cp = {i: graph.compound_priority[i] for i in graph.nodes}

    def on_pool_exit(self, graph):
        """The scheduler has left its loop and is about to join the worker pool: whatever is still gated runs to its
        end now, as it would without the harness (on the unchanged tree nothing is in flight at this point)."""
        if not self.mine(graph):
            return
        with self.cv:
            pending = [i for i in self.at_gate if i not in self.released]
        if pending:
            self.log("pool_exit", s=[self.ix(i) for i in pending])
        self.release_everything()

    def on_exec_end(self, graph, results):
        if self.mine(graph):
            self.log("exec_end")

    def on_dispatch(self, xn, graph):
        if not self.mine(graph):
            return
        kind = RES_INV.get(xn.resource, "?")
        with self.cv:
            self.dispatched[xn.id] = kind
            self.gates.setdefault(xn.id, threading.Event())
            if self.open_all:
                self.gates[xn.id].set()
        self.log("dispatch", n=self.ix(xn.id), k=kind)

    def on_skip(self, xn, graph):
        if not self.mine(graph):
            return
        self.log("skip", n=self.ix(xn.id))

    def on_seq_defer(self, xn, graph):
        if not self.mine(graph):
            return
        self.log("seq_defer", n=self.ix(xn.id))

    def on_node_enter(self, xn, results):
        if not self.mine(results):
            _tls.ctl = None
            return
        _tls.ctl = self
        me = threading.get_ident()
        _tls.node = xn.id
        on_sched = me == self.sched_thread
        with self.cv:
            self.entered[xn.id] = self.entered.get(xn.id, 0) + 1
            gate = self.gates.setdefault(xn.id, threading.Event())
        self.log("enter", n=self.ix(xn.id), b=(me == self.invoker), k=("sched" if on_sched else "worker"))
        if on_sched:
            # inline node: anything gated may finish while it runs
            self._inline_decision(xn.id)
            return
        with self.cv:
            self.at_gate.add(xn.id)
            if self.open_all:
                self.released.add(xn.id)
                gate.set()
            self.cv.notify_all()
        if not gate.wait(60.0):
            self.anomalies.append(f"gate of {xn.id} never released")
        with self.cv:
            self.at_gate.discard(xn.id)

    def on_node_exit(self, xn, results, ok):
        if not self.mine(results):
            return
        self.log("exit", n=self.ix(xn.id), b=ok, r=self.recv.get(xn.id, ()))
        with self.cv:
            self.exited[xn.id] = ok
            self.cv.notify_all()

    def _inline_decision(self, me_id):
        if self.open_all:
            return
        gated = sorted(self._settle() - {me_id}, key=self.ix)
        opts = subsets(gated, self.max_bg)
        choice = self.decide("inline", opts)
        if choice:
            self._release(choice)
            self._wait_exit(choice)

    def on_wait_begin(self, kind, return_when, graph, futures, running):
        if not self.mine(graph):
            return
        ids = sorted((futures.inverse[f] for f in running), key=self.ix)
        mode = "ALL" if return_when == ALL_COMPLETED else "FIRST"
        self.log("wait_begin", k=kind, m=mode, s=[self.ix(i) for i in ids])
        self.in_wait = kind
        if kind == "async":
            with self.cv:
                self.started_async |= {i for i, k in self.dispatched.items() if k == "async"}
        if self.open_all:
            return
        if kind == "thread":
            self._thread_wait(ids, mode, futures)
        else:
            done0 = [i for i in ids if futures[i].done() or i in self.exited]
            if done0:
                # an awaited node has already returned (it was released in the background): asyncio.wait will
                # deliver it at the next loop iteration; nothing to decide
                return
            self.helper_token = {"released": False, "abandoned": False}
            self.helper = threading.Thread(target=self._async_wait, args=(ids, mode, self.helper_token), daemon=True)
            self.helper.start()

    def on_wait_end(self, kind, graph, done):
        if not self.mine(graph):
            return
        if self.helper is not None and kind == "async":
            # normally the wait returns because the helper released an awaited node. It can also return because a node
            # that finished in the background is delivered now, or (a defect) because a completion is reported that did
            # not happen. In both cases the helper is called off before it decides anything; the nodes stay gated.
            tok = self.helper_token
            with self.cv:
                called_off = not tok["released"]
                if called_off:
                    tok["abandoned"] = True
            if not called_off:
                self.helper.join(HANG_TIMEOUT)
            else:
                # node functions do return eventually: the ones reported too early finish a little later
                early = [i for i in done if i not in self.exited]
                if early:
                    threading.Timer(0.05, lambda: self._release([i for i in early if i in self.gates])).start()
            self.helper = None
        if kind == "thread" and self.thread_tok is not None:
            tok, self.thread_tok = self.thread_tok, None
            with self.cv:
                if not tok["released"]:
                    tok["abandoned"] = True        # the wait came back before anything was released: it gave up by itself
                    self.gave_up = True             # (no patience with the next wait: the run has to go on)
        self.in_wait = None
        self.log("wait_end", k=kind, s=[self.ix(i) for i in done])

    # a wait on thread futures: runs on the scheduler thread, may block it
    def _thread_wait(self, ids, mode, futures):
        # nodes released a moment ago (by the helper of a patient wait) are on their way out: let them get there
        leaving = [i for i in ids if i in self.released and i not in self.exited]
        if leaving:
            self._wait_exit(leaving)
        settled = self._settle()
        # a node released in the background has emitted its exit event; its future becomes done a moment later
        gone = [futures[i] for i in ids if i in self.exited]
        if gone:
            cf_wait(gone, return_when=ALL_COMPLETED, timeout=HANG_TIMEOUT)
        done0 = [i for i in ids if futures[i].done()]
        others = sorted(settled - set(ids), key=self.ix)
        cand = sorted(settled & set(ids), key=self.ix)
        if not cand and not done0:
            # before calling it a hang: give the awaited nodes the full time to show up
            cand = sorted(self._wait_gate_arrival(ids, timeout=HANG_TIMEOUT, capacity=False) & set(ids), key=self.ix)
            done0 = [i for i in ids if futures[i].done()]
        if not cand and not done0:
            self.log("hang", k="nothing-to-release", s=[self.ix(i) for i in ids])
            self.release_everything()
            raise HarnessAbort("hang: scheduler waits for nodes that never started")
        opts = []
        bgs = subsets(others, self.max_bg)
        if mode == "ALL":
            # every awaited node must finish; a proper subset first shows whether the scheduler stays blocked
            for bg in bgs:
                opts.append((bg, (), tuple(cand)))
            if len(cand) + len(done0) > 1 and not done0:
                for first in subsets(cand, self.max_subset, nonempty=True):
                    if len(first) < len(cand):
                        opts.append(((), first, tuple(c for c in cand if c not in first)))
        else:
            for a in subsets(cand, self.max_subset, nonempty=not done0):
                for bg in bgs:
                    opts.append((bg, (), a))
        if self.patient:
            opts = [o for o in opts if not o[1]] or opts
        bg, first, rest = self.decide("wait-thread", opts)
        if self.patient and not first and not done0 and not self.gave_up:
            # let the real wait begin and block; the completions come PATIENCE seconds later from a helper thread
            tok = {"released": False, "abandoned": False}
            self.thread_tok = tok

            def later():
                time.sleep(PATIENCE)
                with self.cv:
                    if tok["abandoned"]:
                        return
                    tok["released"] = True
                if bg:
                    self._release(bg)
                    self._wait_exit(bg)
                self._release(rest)
            threading.Thread(target=later, daemon=True).start()
            return
        if bg:
            self._release(bg)
            self._wait_exit(bg)
        if first:
            self._release(first)
            self._wait_exit(first)
            cf_wait([futures[i] for i in first], return_when=ALL_COMPLETED, timeout=HANG_TIMEOUT)
            # mode ALL with a proper subset finished: the real wait cannot return yet
            self.log("still_blocked", k="thread", s=[self.ix(i) for i in first])
        self._release(rest)
        self._wait_exit(rest)
        cf_wait([futures[i] for i in rest], return_when=ALL_COMPLETED, timeout=HANG_TIMEOUT)

    # a wait on asyncio futures: the scheduler coroutine is suspended, this runs on a helper thread
    def _async_wait(self, ids, mode, tok):
        try:
            leaving = [i for i in ids if i in self.released and i not in self.exited]
            if leaving:
                self._wait_exit(leaving)
            settled = self._settle()
            with self.cv:
                if tok["abandoned"]:
                    return
            cand = sorted(settled & set(ids), key=self.ix)
            others = sorted(settled - set(ids), key=self.ix)
            if not cand and any(i not in self.exited for i in ids):
                cand = sorted(self._wait_gate_arrival(ids, timeout=HANG_TIMEOUT, capacity=False) & set(ids), key=self.ix)
                with self.cv:
                    if tok["abandoned"]:
                        return
            if not cand:
                if any(i not in self.exited for i in ids):
                    self.log("hang", k="nothing-to-release", s=[self.ix(i) for i in ids])
                    self.release_everything()
                return
            opts = []
            bgs = subsets(others, self.max_bg)
            if mode == "ALL":
                for bg in bgs:
                    opts.append((bg, (), tuple(cand)))
                if len(cand) > 1:
                    for first in subsets(cand, 1, nonempty=True):
                        opts.append(((), first, tuple(c for c in cand if c not in first)))
            else:
                for a in cand:
                    for bg in bgs:
                        opts.append((bg, (), (a,)))
            with self.cv:
                if tok["abandoned"]:
                    return
                bg, first, rest = self.decide("wait-async", opts)
                tok["released"] = True
            if bg:
                self._release(bg)
                self._wait_exit(bg)
                # no awaited node was released: the scheduler is provably still blocked
                self.log("still_blocked", k="async", s=[self.ix(i) for i in bg])
            if first:
                self._release(first)
                self._wait_exit(first)
                time.sleep(0.002)
                self.log("still_blocked", k="async", s=[self.ix(i) for i in first])
            for a in rest:
                self._release([a])
                self._wait_exit([a])
        except BaseException as e:  # noqa: BLE001
            self.anomalies.append(f"async helper failed: {e!r}")
            self.release_everything()

    # ---------------------------------------------------------------- node bodies
    def body(self, args, kwargs):
        id_ = getattr(_tls, "node", None)
        k = self.ix(id_)
        recv = [self.decode(a) for a in args] + [self.decode(kwargs[x]) for x in sorted(kwargs)]
        self.recv[id_] = recv
        if k in self.bad:
            raise Injected(k)
        return Tok(k, self.nonce, self.truthy.get(k, True))

    def decode(self, v):
        if v is None:
            return 0
        if isinstance(v, Tok) and v.nonce == self.nonce:
            return v.k
        return -1


CURRENT = None  # the controller of the run in progress (node bodies look it up)


def _body(*args, **kwargs):
    ctl = getattr(_tls, "ctl", None)
    if ctl is None:
        return None         # a node of an execution that is over (left-over worker of an earlier run): not observed
    return ctl.body(args, kwargs)


def reconf_groups(cfg):
    """Reconfiguration addressed through tags: the named nodes that get identical new values form a group that carries a
    tag, and the configuration names the tag instead of the node ids ({tag: [node indices]}; only groups of two or more)."""
    rc = cfg.get("reconf")
    if not rc or not rc.get("bytag"):
        return {}
    by = {}
    for k in range(cfg["n"]):
        if rc["named"][k]:
            by.setdefault((rc["prio"][k], rc["seq"][k]), []).append(k + 1)
    return {f"g{j}": members for j, (_, members) in enumerate(sorted(by.items())) if len(members) >= 2}


def build_dag(cfg):
    """Build the real DAG for a configuration. Returns (dag, ids) with ids[k-1] the id of node k.

    cfg keys: n, deps (list of lists of 1-based indices, positional argument order), mc, prio, seq,
    res, setup (optional), act (optional: None | ["const", bool] | ["arg", bool] | ["node", j]),
    fn (optional: function index per node; equal indices share one decorated function),
    flavour ("sync" | "async"), kw (optional: list per node of booleans, pass that dep by keyword).
    """
    n = cfg["n"]
    fn = cfg.get("fn") or list(range(1, n + 1))
    setup = cfg.get("setup") or [False] * n
    debug = cfg.get("debug") or [False] * n
    act = cfg.get("act") or [None] * n
    xs = {}
    groups = reconf_groups(cfg)
    for k in range(1, n + 1):
        f = fn[k - 1]
        if f in xs:
            continue

        def make(f=f):
            def node_fn(*a, **kw):
                return _body(*a, **kw)

            node_fn.__qualname__ = node_fn.__name__ = f"f{f}"
            return node_fn

        xs[f] = xn(
            make(),
            priority=cfg["prio"][k - 1],
            is_sequential=cfg["seq"][k - 1],
            resource=RES[cfg["res"][k - 1]],
            setup=setup[k - 1],
            debug=debug[k - 1],
            tag=next((t for t, members in groups.items() if k in members), None),
        )
    params = []
    lines = []
    for k in range(1, n + 1):
        parts = []
        kws = []
        for j, d in enumerate(cfg["deps"][k - 1]):
            if cfg.get("kw") and cfg["kw"][k - 1][j]:
                kws.append(f"p{j}=v{d}")
            else:
                parts.append(f"v{d}")
        parts += kws
        a = act[k - 1]
        if a is not None:
            if a[0] == "const":
                parts.append(f"twz_active={bool(a[1])!r}")
            elif a[0] == "arg":
                params.append(f"flag{k}")
                parts.append(f"twz_active=flag{k}")
            elif a[0] == "node":
                parts.append(f"twz_active=v{a[1]}")
        lines.append(f"    v{k} = X[{fn[k-1]}]({', '.join(parts)})")
    ret = ", ".join(f"v{k}" for k in range(1, n + 1))
    src = f"def describe({', '.join(params)}):\n" + "\n".join(lines) + f"\n    return ({ret},)\n"
    env = {"X": xs}
    exec(compile(src, f"<cfg {cfg.get('cid', '')}>", "exec"), env)  # noqa: S102
    d = dag(env["describe"], max_concurrency=cfg["mc"], is_async=(cfg.get("flavour") == "async"))
    ids = [i for i, x in d.exec_nodes.items() if type(x).__name__ == "LazyExecNode"]
    assert len(ids) == n, (ids, n)
    callargs = [bool(a[1]) for a in act if a is not None and a[0] == "arg"]
    return d, ids, callargs, src


def classify_exception(exc, ctl, cfg):
    """Project the exception of a call onto the fields the trace specification needs."""
    if isinstance(exc, HarnessAbort):
        return {"e": "raise", "n": 0, "k": "harness", "m": repr(exc)[:200], "s": [], "b": False, "r": []}
    node = 0
    named = cause = False
    kind = "internal"
    if isinstance(exc, Injected):
        kind, node, named, cause = "bare", exc.node, True, True
    elif isinstance(exc, TawaziBaseException) and isinstance(exc.__cause__, Injected):
        kind, node, cause = "wrapped", exc.__cause__.node, True
        msg = str(exc)
        ids = [i for i, k in ctl.idx_of.items() if k == node]
        named = bool(ids) and any(
            f"ExecNode {i} at <cfg {cfg.get('cid', '')}>:{node + 1}" in msg for i in ids
        )
    return {
        "e": "raise", "n": node, "k": kind, "m": f"{type(exc).__name__}: {exc}"[:300],
        "s": [], "b": named, "r": [int(cause)],
    }


class _Hang(BaseException):
    pass


def _on_sigusr1(signum, frame):
    raise _Hang()


def run_history(cfg, script=(), max_subset=None, max_bg=None):
    """Build the DAG of cfg and run its history (cfg["ops"], default one call) under control.

    Must be called from the main thread of the process (a hang is broken with a signal).
    """
    global CURRENT
    import signal

    d, ids, callargs, src = build_dag(cfg)
    idx_of = {i: k + 1 for k, i in enumerate(ids)}
    truthy = {k + 1: t for k, t in enumerate(cfg.get("truthy") or [True] * cfg["n"])}
    rc = cfg.get("reconf")
    if rc:
        # priorities / sequentiality reconfigured after the build (dict, JSON or YAML): the documented values change with it
        import json as _json
        import tempfile
        groups = reconf_groups(cfg)
        grouped = {k for members in groups.values() for k in members}
        keys = rc.get("keys") or ["both"] * cfg["n"]

        def entry(k):
            e = {}
            if keys[k] in ("both", "prio"):
                e["priority"] = rc["prio"][k]
            if keys[k] in ("both", "seq"):
                e["is_sequential"] = rc["seq"][k]
            return e
        conf = {"nodes": {ids[k]: entry(k) for k in range(cfg["n"]) if rc["named"][k] and k + 1 not in grouped}}
        for t, members in groups.items():       # one entry for all the nodes that carry the tag
            conf["nodes"][t] = {"priority": rc["prio"][members[0] - 1], "is_sequential": rc["seq"][members[0] - 1]}
        if rc.get("mc"):
            conf["max_concurrency"] = rc["mc"]
        if rc["via"] == "dict":
            d.config_from_dict(conf)
            if rc.get("twice"):
                d.config_from_dict(conf)        # applying the same configuration object again changes nothing
        else:
            with tempfile.NamedTemporaryFile("w", suffix="." + rc["via"], delete=False) as f:
                if rc["via"] == "json":
                    _json.dump(conf, f)
                else:
                    import yaml
                    yaml.safe_dump(conf, f)
            (d.config_from_json if rc["via"] == "json" else d.config_from_yaml)(f.name)
            os.remove(f.name)
    ctl = Controller(idx_of, script, max_subset, max_bg, bad=cfg.get("bad") or (), truthy=truthy, patient=bool(cfg.get("patient")))
    CURRENT = ctl
    _verif.sink = ctl
    is_async = cfg.get("flavour") == "async"
    ops = cfg.get("ops") or ["call"]
    done = threading.Event()
    state = {"hang": False}
    main_ident = threading.get_ident()
    old = signal.signal(signal.SIGUSR1, _on_sigusr1)

    def watchdog():
        stalled = False
        while not done.wait(0.25):
            idle = time.monotonic() - ctl.last_event
            if not stalled and idle > STALL_TIMEOUT:
                stalled = True
                ctl.log("stall", k=str(ctl.in_wait or ""), s=[ctl.ix(i) for i in ctl.at_gate])
                ctl.release_everything()
            elif stalled and idle > HANG_TIMEOUT and not state["hang"]:
                state["hang"] = True
                ctl.log("hang", k="no-progress")
                signal.pthread_kill(main_ident, signal.SIGUSR1)
                return

    wd = threading.Thread(target=watchdog, daemon=True)
    wd.start()
    tawazi.cfg.RUN_DEBUG_NODES = bool(cfg.get("run_debug", False))
    tawazi.cfg.TAWAZI_PROFILE_ALL_NODES = bool(cfg.get("profile", False))      # profiling must not change what a call does
    log_sink = None
    if cfg.get("logging"):
        # the library's logger switched on (as with TAWAZI_LOGGER_LEVEL=DEBUG), into a sink that drops everything:
        # every message is formatted - logging must not change what a call does, on the error paths either
        from loguru import logger as _lg
        try:
            _lg.remove()
        except ValueError:
            pass
        log_sink = _lg.add(lambda m: None, level="DEBUG")
        _lg.enable("tawazi")
    try:
        for op in ops:
            ctl.reset_exec()
            opname = op if isinstance(op, str) else op[0]
            target = None
            if opname == "exec":
                # an executor restricted by target / exclude / root nodes (a caller error skips the operation)
                sel = op[1]
                kw = {k2: [ids[j - 1] for j in sel[k1]] for k1, k2 in (("t", "target_nodes"), ("x", "exclude_nodes"), ("r", "root_nodes")) if sel.get(k1) is not None}
                try:
                    target = d.executor(**kw)
                except _Hang:
                    # building the executor never came back (the watchdog broke it off): the operation hangs (C09)
                    ctl.log("op", k="exec")
                    ctl.log("raise", k="hang")
                    ctl.log("op_end")
                    break
                except Exception:  # noqa: BLE001  (selections and their caller errors are engine E3's subject)
                    ctl.log("op_skipped", k="exec")
                    continue
            ctl.log("op", k=opname)
            raised = False
            ctl.in_call = True
            try:
                if opname == "setup":
                    # a setup run, possibly restricted to what depends on some root setup nodes
                    skw = {} if isinstance(op, str) or not op[1].get("r") else {"root_nodes": [ids[j - 1] for j in op[1]["r"]]}
                    asyncio.run(d.setup(**skw)) if is_async else d.setup(**skw)
                elif opname == "exec":
                    asyncio.run(target(*callargs)) if is_async else target(*callargs)
                else:
                    asyncio.run(d(*callargs)) if is_async else d(*callargs)
                ctl.in_call = False
                ctl.log("return")
            except _Hang:
                ctl.in_call = False
                raised = True
                ctl.log("raise", k="hang")
            except BaseException as exc:  # noqa: BLE001
                ctl.in_call = False
                raised = True
                ev = classify_exception(exc, ctl, cfg)
                with ctl.cv:
                    ctl.events.append(ev)
            # nodes that were in flight when the call ended: let them finish (outside the execution)
            ctl.log("op_end")
            ctl.release_everything()
            ctl._wait_exit([i for i in ctl.entered if i not in ctl.exited], timeout=2.0)
            if raised:
                break
    finally:
        done.set()
        _verif.sink = None
        tawazi.cfg.RUN_DEBUG_NODES = False
        tawazi.cfg.TAWAZI_PROFILE_ALL_NODES = False
        if log_sink is not None:
            from loguru import logger as _lg
            _lg.disable("tawazi")
            try:
                _lg.remove(log_sink)
            except ValueError:
                pass
        ctl.release_everything()
        signal.signal(signal.SIGUSR1, old)
    return {
        "events": ctl.events,
        "trail": ctl.trail,
        "anomalies": ctl.anomalies,
        "diverged": ctl.diverged,
        "ids": ids,
        "src": src,
        "hang": state["hang"],
    }
