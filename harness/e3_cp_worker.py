"""Observe compound-priority tables and mc=1 execution orders (run once per PYTHONHASHSEED)."""
import json
import os
import sys
import tempfile

HERE = os.path.dirname(os.path.abspath(__file__))
sys.path.insert(0, HERE)
os.environ["TAWAZI_VERIF"] = "1"
REPO = os.environ.get("VERIF_REPO", "/repo")
sys.path.insert(0, REPO)


def build(n, deps, prio, debug=None, tags=None):
    from tawazi import dag, xn

    debug = debug or [False] * n
    tags = tags or {}

    xs = {}
    for k in range(1, n + 1):
        def mk(k=k):
            def f(*a):
                return k
            f.__qualname__ = f.__name__ = f"f{k}"
            return f
        xs[k] = xn(mk(), priority=prio[k - 1], debug=debug[k - 1], tag=tags.get(k))
    lines = [f"    v{k} = X[{k}]({', '.join(f'v{d}' for d in deps[k - 1])})" for k in range(1, n + 1)]
    src = "def describe():\n" + "\n".join(lines) + "\n    return (" + ", ".join(f"v{k}" for k in range(1, n + 1)) + ",)\n"
    env = {"X": xs}
    exec(compile(src, "<cp>", "exec"), env)  # noqa: S102
    return dag(env["describe"], max_concurrency=1)


class Order:
    def __init__(self):
        self.order = []

    def __call__(self, event, **f):
        if event == "node_enter":
            self.order.append(int(f["xn"].id[1:]))


def observe(case, idx):
    from tawazi import _verif

    n, deps = case["n"], case["deps"]
    from tawazi import cfg as twz_cfg

    named = case.get("conf") or list(range(1, n + 1))
    how = idx % 5
    # how == 1: the reconfiguration addresses the nodes through tags - all the nodes that get the same new priority carry
    # one tag and share one entry of the configuration
    tags = {k: f"q{case['prio2'][k - 1]}" for k in named} if how == 1 else {}
    d = build(n, deps, case["prio"], case.get("debug"), tags)
    # debug nodes take part (in calls and, pulled below the selected leaves, in executors)
    twz_cfg.RUN_DEBUG_NODES = bool(case.get("debug") and any(case["debug"]))
    row = dict(case)
    row["hs"] = os.environ.get("PYTHONHASHSEED", "")
    row["cp_build"] = [d.graph_ids.compound_priority[f"f{k}"] for k in range(1, n + 1)]
    rec = Order()
    _verif.sink = rec
    try:
        d()
    finally:
        _verif.sink = None
    row["order"] = rec.order
    subs = []
    for (R, X, T) in case.get("sels", []):
        ids = lambda S: None if S is None else [f"f{k}" for k in S]  # noqa: E731
        try:
            ex = d.executor(root_nodes=ids(R), exclude_nodes=ids(X), target_nodes=ids(T))
        except ValueError:
            continue
        g = [int(i[1:]) for i in ex.graph.nodes]
        m = 0
        for k in g:
            m |= 1 << (k - 1)
        subs.append([m] + [ex.graph.compound_priority[f"f{k}"] if k in g else 0 for k in range(1, n + 1)])
    row["subs"] = subs
    conf = {"nodes": {f"f{k}": {"priority": case["prio2"][k - 1]} for k in named}}
    if how == 1:
        conf = {"nodes": {t: {"priority": int(t[1:])} for t in sorted(set(tags.values()))}}
    if how == 3:
        with tempfile.NamedTemporaryFile("w", suffix=".json", delete=False) as f:
            json.dump(conf, f)
        d.config_from_json(f.name)
        os.remove(f.name)
    elif how == 4:
        import yaml
        with tempfile.NamedTemporaryFile("w", suffix=".yaml", delete=False) as f:
            yaml.safe_dump(conf, f)
        d.config_from_yaml(f.name)
        os.remove(f.name)
    else:
        d.config_from_dict(conf)
        if how == 1:
            d.config_from_dict(conf)        # the same configuration object once more: nothing changes
    row["cp_reconf"] = [d.graph_ids.compound_priority[f"f{k}"] for k in range(1, n + 1)]
    # a second configuration that does not touch priorities must leave the table alone
    d.config_from_dict({"nodes": {f"f{1 + idx % n}": {"is_sequential": False}}})
    row["cp_reconf2"] = [d.graph_ids.compound_priority[f"f{k}"] for k in range(1, n + 1)]
    rec = Order()
    _verif.sink = rec
    try:
        d()
    finally:
        _verif.sink = None
    row["order2"] = rec.order
    row.pop("sels", None)
    row.pop("debug", None)
    twz_cfg.RUN_DEBUG_NODES = False
    return row


if __name__ == "__main__":
    cases = json.load(open(sys.argv[1]))
    rows = []
    for i, c in enumerate(cases):
        try:
            rows.append(observe(c, i))
        except BaseException as e:  # noqa: BLE001
            rows.append({"error": repr(e)[:300], "case": c})
    json.dump(rows, open(sys.argv[2], "w"))
