"""Observe compound-priority tables and mc=1 execution orders (run once per PYTHONHASHSEED)."""
import json
import os
import sys
import tempfile

HERE = os.path.dirname(os.path.abspath(__file__))
sys.path.insert(0, HERE)
os.environ["TAWAZI_VERIF"] = "1"
REPO = os.environ.get("VERIF_REPO", "/repo")
sys.path.insert(0, REPO)


def build(n, deps, prio, debug=None, tags=None):
    from tawazi import dag, xn

    debug = debug or [False] * n
    tags = tags or {}

    xs = {}
    for k in range(1, n + 1):
        def mk(k=k):
            def f(*a):
                return k
            f.__qualname__ = f.__name__ = f"f{k}"
            return f
        xs[k] = xn(mk(), priority=prio[k - 1], debug=debug[k - 1], tag=tags.get(k))
    lines = [f"    v{k} = X[{k}]({', '.join(f'v{d}' for d in deps[k - 1])})" for k in range(1, n + 1)]
    src = "def describe():\n" + "\n".join(lines) + "\n    return (" + ", ".join(f"v{k}" for k in range(1, n + 1)) + ",)\n"
    env = {"X": xs}
    exec(compile(src, "<cp>", "exec"), env)  # noqa: S102
    return dag(env["describe"], max_concurrency=1)


class Order:
    def __init__(self, ids):
        self.order = []
        self.ids = ids

    def __call__(self, event, **f):
        if event == "node_enter" and f["xn"].id in self.ids:
            self.order.append(self.ids.index(f["xn"].id) + 1)


def composed_case(case, idx):
    """A DAG obtained through compose(): the nodes the outputs need, up to the chosen input.  Its compound priorities are
    those of ITS graph (own priority + the distinct descendants that were kept); returns (dag, ids, call arguments, the
    case re-labelled to the kept nodes) or None."""
    import random
    import warnings

    n, deps = case["n"], case["deps"]
    rng = random.Random(idx)
    inner = [k for k in range(1, n + 1) if any(k in deps[m - 1] for m in range(1, n + 1))]
    leaves = [k for k in range(1, n + 1) if not any(k in deps[m - 1] for m in range(1, n + 1))]
    if n < 3 or not inner:
        return None
    inp = rng.choice(inner)
    outs = [k for k in leaves if k != inp] or leaves
    d = build(n, deps, case["prio"])
    try:
        with warnings.catch_warnings():
            warnings.simplefilter("ignore")
            c = d.compose("comp", [f"f{inp}"], [f"f{k}" for k in outs])
    except ValueError:
        return None
    kept = sorted(int(i[1:]) for i in c.exec_nodes if i.startswith("f") and i[1:].isdigit() and int(i[1:]) != inp)
    if len(kept) < 2:
        return None
    new = {k: j + 1 for j, k in enumerate(kept)}
    sub = dict(case, n=len(kept), deps=[[new[x] for x in deps[k - 1] if x in new] for k in kept],
               prio=[case["prio"][k - 1] for k in kept], prio2=[case["prio2"][k - 1] for k in kept],
               conf=[new[k] for k in (case.get("conf") or []) if k in new], sels=[], debug=None)
    sub["origin"] = {"case": {k: case[k] for k in ("n", "deps", "prio", "prio2") if k in case}, "idx": idx}
    return c, [f"f{k}" for k in kept], [0], sub


def observe(case, idx, given=None):
    from tawazi import _verif

    n, deps = case["n"], case["deps"]
    from tawazi import cfg as twz_cfg

    named = case.get("conf") or list(range(1, n + 1))
    how = idx % 5 if given is None else 0
    # how == 1: the reconfiguration addresses the nodes through tags - all the nodes that get the same new priority carry
    # one tag and share one entry of the configuration
    tags = {k: f"q{case['prio2'][k - 1]}" for k in named} if how == 1 else {}
    if given is not None:
        d, ids, callargs = given
    else:
        d, ids, callargs = build(n, deps, case["prio"], case.get("debug"), tags), [f"f{k}" for k in range(1, n + 1)], []
    # debug nodes take part (in calls and, pulled below the selected leaves, in executors)
    twz_cfg.RUN_DEBUG_NODES = bool(case.get("debug") and any(case["debug"]))
    row = dict(case)
    row["hs"] = os.environ.get("PYTHONHASHSEED", "")
    row["cp_build"] = [d.graph_ids.compound_priority[ids[k - 1]] for k in range(1, n + 1)]
    rec = Order(ids)
    _verif.sink = rec
    try:
        d(*callargs)
    finally:
        _verif.sink = None
    row["order"] = rec.order
    subs = []
    for (R, X, T) in case.get("sels", []):
        idl = lambda S: None if S is None else [f"f{k}" for k in S]  # noqa: E731
        try:
            ex = d.executor(root_nodes=idl(R), exclude_nodes=idl(X), target_nodes=idl(T))
        except ValueError:
            continue
        g = [int(i[1:]) for i in ex.graph.nodes]
        m = 0
        for k in g:
            m |= 1 << (k - 1)
        subs.append([m] + [ex.graph.compound_priority[f"f{k}"] if k in g else 0 for k in range(1, n + 1)])
    row["subs"] = subs
    conf = {"nodes": {ids[k - 1]: {"priority": case["prio2"][k - 1]} for k in named}}
    if how == 1:
        conf = {"nodes": {t: {"priority": int(t[1:])} for t in sorted(set(tags.values()))}}
    if how == 3:
        with tempfile.NamedTemporaryFile("w", suffix=".json", delete=False) as f:
            json.dump(conf, f)
        d.config_from_json(f.name)
        os.remove(f.name)
    elif how == 4:
        import yaml
        with tempfile.NamedTemporaryFile("w", suffix=".yaml", delete=False) as f:
            yaml.safe_dump(conf, f)
        d.config_from_yaml(f.name)
        os.remove(f.name)
    else:
        d.config_from_dict(conf)
        if how == 1:
            d.config_from_dict(conf)        # the same configuration object once more: nothing changes
    row["cp_reconf"] = [d.graph_ids.compound_priority[ids[k - 1]] for k in range(1, n + 1)]
    # a second configuration that does not touch priorities must leave the table alone
    d.config_from_dict({"nodes": {ids[idx % n]: {"is_sequential": False}}})
    row["cp_reconf2"] = [d.graph_ids.compound_priority[ids[k - 1]] for k in range(1, n + 1)]
    rec = Order(ids)
    _verif.sink = rec
    try:
        d(*callargs)
    finally:
        _verif.sink = None
    row["order2"] = rec.order
    row.pop("sels", None)
    row.pop("debug", None)
    twz_cfg.RUN_DEBUG_NODES = False
    return row


if __name__ == "__main__":
    cases = json.load(open(sys.argv[1]))
    rows = []
    for i, c in enumerate(cases):
        if "replay_composed_idx" in c:
            cc = composed_case(c, c["replay_composed_idx"])
            rows.append(observe(cc[3], c["replay_composed_idx"], given=cc[:3]) if cc else {"error": "no composition", "case": c})
            continue
        try:
            rows.append(observe(c, i))
        except BaseException as e:  # noqa: BLE001
            rows.append({"error": repr(e)[:300], "case": c})
        if i % 3 == 0 and not c.get("debug"):
            try:
                cc = composed_case(c, i)
                if cc is not None:
                    rows.append(observe(cc[3], i, given=cc[:3]))
            except BaseException as e:  # noqa: BLE001
                rows.append({"error": "composed: " + repr(e)[:300], "case": c})
    json.dump(rows, open(sys.argv[2], "w"))
