"""Human-readable rendering of a generated program (debugging aid)."""
import prog_gen as pg


def show_ref(r):
    if r["c"] == "const":
        return repr(pg.decode(r["v"]))
    if r["c"] == "param":
        return f"p{r['n']}" + "".join(f"[{k['i'] if k['k'] == 'i' else repr(k['x'])}]" for k in r.get("path", []))
    if r["c"] == "site":
        return f"s{r['n']}" + "".join(f"[{k['i'] if k['k'] == 'i' else repr(k['x'])}]" for k in r["path"])
    return "-"


def show(P, ind=""):
    out = [ind + "params: " + str([(pg.decode(p["v"]) if p["has"] else "REQ") for p in P["params"]])]
    for j, s in enumerate(P["sites"], 1):
        a = ", ".join(show_ref(r) for r in s["args"]) + "".join(f", {k['name']}={show_ref(k['ref'])}" for k in s["kw"])
        fl = "" if s["active"]["c"] == "none" else f" ACTIVE={show_ref(s['active'])}"
        out.append(ind + f" s{j} = {s['kind']}:{s['fn'] or 'SUB' + str(s['sub'])}({a}){fl}{' UNPACK' if s['unpack'] else ''}{' SETUP' if s.get('setup') else ''}")
    out.append(ind + f" ret {P['ret']['shape']} {[show_ref(r) for r in P['ret']['refs']]}")
    for k, Q in enumerate(P["subs"], 1):
        out.append(ind + f" SUB{k}:")
        out.append(show(Q, ind + "    "))
    return "\n".join(out)
