"""Engine E1: the scheduler.  (M) TLC on Scheduler.tla, (T) every schedule of the real scheduler
validated by TLC against SchedTrace.tla, (G) model histories replayed into the real code."""
import concurrent.futures as cf
import hashlib
import json
import os
import random
import time

import common
import tlc

SERVES = ["C02", "C03", "C04", "C05", "C06", "C08", "C09", "C14"]   # contributes to C10 and C17

# model-checking runs: name -> (constants, invariants, properties, expect_violation_of)
ALLRES = '{"thread", "async", "main"}'


def model_runs(tier):
    inv_all = ["TypeOK", "P02", "P03", "P04", "P05", "P06", "P08", "P08still", "NoSpin", "NoStuck", "P14", "P17"]
    runs = []
    if tier == "quick":
        runs.append(("safety-N3", dict(N=3, MCS="{1, 2}", RES=ALLRES, PRS="{0}", SEQS="{TRUE, FALSE}",
                                       FAILS=1, INACT=1, PREMAX=0), inv_all, ["P03once", "P14after"], None, 6))
        runs.append(("prio-N3", dict(N=3, MCS="{1, 2}", RES='{"thread", "main"}', PRS="{0, 1, 2}",
                                     SEQS="{TRUE, FALSE}", FAILS=0, INACT=0, PREMAX=0),
                     ["P05", "P06", "P08", "P08still"], [], None, 4))
        runs.append(("live-N3", dict(N=3, MCS="{1, 2}", RES=ALLRES, PRS="{0}", SEQS="{TRUE, FALSE}",
                                     FAILS=1, INACT=0, PREMAX=0), [], ["P09"], None, 4))
    else:
        runs.append(("safety-N3", dict(N=3, MCS="{1, 2, 3}", RES=ALLRES, PRS="{0}", SEQS="{TRUE, FALSE}",
                                       FAILS=1, INACT=1, PREMAX=1), inv_all, ["P03once", "P14after"], None, 8))
        runs.append(("safety-N3-2fail", dict(N=3, MCS="{1, 2}", RES=ALLRES, PRS="{0}", SEQS="{TRUE, FALSE}",
                                             FAILS=2, INACT=0, PREMAX=0), inv_all, ["P03once", "P14after"], None, 8))
        runs.append(("prio-N3", dict(N=3, MCS="{1, 2}", RES=ALLRES, PRS="{0, 1, 2}", SEQS="{TRUE, FALSE}",
                                     FAILS=0, INACT=1, PREMAX=0), ["P05", "P06", "P08", "P08still"], [], None, 8))
        runs.append(("live-N3", dict(N=3, MCS="{1, 2}", RES=ALLRES, PRS="{0}", SEQS="{TRUE, FALSE}",
                                     FAILS=1, INACT=1, PREMAX=0), [], ["P09"], None, 8))
        runs.append(("safety-N4", dict(N=4, MCS="{1, 2}", RES=ALLRES, PRS="{0}", SEQS="{TRUE, FALSE}",
                                       FAILS=1, INACT=0, PREMAX=0), inv_all, ["P03once", "P14after"], None, 8))
        runs.append(("safety-N4-mc3", dict(N=4, MCS="{3}", RES='{"thread", "async"}', PRS="{0}", SEQS="{TRUE, FALSE}",
                                           FAILS=1, INACT=1, PREMAX=0), inv_all, ["P03once", "P14after"], None, 8))
    runs.append(("known-C08", dict(N=3, MCS="{2}", RES='{"thread", "async"}', PRS="{0}", SEQS="{FALSE}",
                                   FAILS=0, INACT=0, PREMAX=0), ["P08known"], [], "P08known", 2))
    return runs


def write_cfg(name, consts, invs, props):
    os.makedirs(common.CACHE, exist_ok=True)
    path = os.path.join(common.CACHE, f"Scheduler-{name}.cfg")
    lines = ["CONSTANTS"] + [f" {k} = {v}" for k, v in consts.items()] + ["SPECIFICATION Spec"]
    lines += [f"INVARIANT {i}" for i in invs] + [f"PROPERTY {p}" for p in props] + ["CHECK_DEADLOCK FALSE"]
    with open(path, "w") as f:
        f.write("\n".join(lines) + "\n")
    return path


def run_model(run):
    name, consts, invs, props, expect, workers = run
    cfg = write_cfg(name, consts, invs, props)
    r = tlc.run_tlc("Scheduler", cfg, workers=workers, timeout=3 * 3600, heap="12g" if consts["N"] >= 4 else "4g")
    out = r["out"]
    violated = [ln.strip() for ln in out.splitlines() if "is violated" in ln or "Temporal properties were violated" in ln]
    completed = "Model checking completed. No error has been found." in out
    ok = completed if expect is None else any(expect in v for v in violated)
    return {"name": name, "consts": consts, "invariants": invs, "properties": props, "expect": expect,
            "ok": ok, "violated": violated, "states": r.get("distinct", 0), "transitions": r.get("states", 0),
            "depth": r.get("depth"), "wall": round(r["wall"], 1), "rc": r["rc"],
            "tail": "" if ok else out[-2500:]}


# ------------------------------------------------------------------ exploration plan
def plan(tier, seed):
    import sched_driver as sd

    rng = random.Random(seed)
    if tier == "quick":
        cfgs = sd.small_configs(2, (1, 2), rng, sample=None, prios=True)[::3]
        cfgs += sd.small_configs(3, (1, 2, 3), rng, sample=1400, prios=True)
        cfgs += [sd.random_config(rng, 4, 7) for _ in range(260)]
        cfgs += [sd.debug_selection_config(rng) for _ in range(60)]
        cfgs += [sd.seq_defer_config(rng) for _ in range(40)]
        cfgs += [sd.reconf_config(rng) for _ in range(40)]
        cfgs += [sd.pool_pressure_config(rng) for _ in range(40)]
        cfgs += [sd.seq_hold_config(rng) for _ in range(16)]
        cfgs += [sd.setup_roots_config(rng) for _ in range(24)]
        opts = {"max_runs": 120}
    else:
        cfgs = sd.small_configs(2, (1, 2), rng, sample=None, prios=True)
        cfgs += sd.small_configs(3, (1, 2, 3), rng, sample=None, prios=True, flavours=("sync",))[::2]
        cfgs += sd.small_configs(3, (1, 2, 3), rng, sample=12000, prios=True, flavours=("async",))
        cfgs += [sd.random_config(rng, 4, 8) for _ in range(4000)]
        cfgs += [sd.debug_selection_config(rng) for _ in range(600)]
        cfgs += [sd.seq_defer_config(rng) for _ in range(500)]
        cfgs += [sd.reconf_config(rng) for _ in range(500)]
        cfgs += [sd.pool_pressure_config(rng) for _ in range(500)]
        cfgs += [sd.seq_hold_config(rng) for _ in range(120)]
        cfgs += [sd.setup_roots_config(rng) for _ in range(200)]
        opts = {"max_runs": 400}
    return cfgs, opts


def trace_key(t):
    body = {k: t[k] for k in ("n", "mc", "deps", "sel", "off", "none", "cp", "seq", "res", "argsrc", "flavour", "op", "ev")}
    return hashlib.sha1(json.dumps(body, sort_keys=True).encode()).hexdigest()


def validate(traces, batch=1500, par=8):
    """TLC-validate traces (list of dicts with tid). Returns (verdict by tid, states, transitions, errors)."""
    os.makedirs(common.CACHE, exist_ok=True)
    batches = [traces[i:i + batch] for i in range(0, len(traces), batch)]

    def one(b_i):
        i, b = b_i
        path = os.path.join(common.CACHE, f"e1-traces-{os.getpid()}-{i}.json")
        slim = [{k: t[k] for k in ("tid", "n", "mc", "deps", "sel", "off", "none", "cp", "seq", "res", "argsrc", "ev")} for t in b]
        with open(path, "w") as f:
            json.dump({"traces": slim}, f)
        try:
            r = tlc.run_tlc("SchedTrace", "SchedTrace.cfg", env={"TRACE_FILE": path}, workers=1, heap="3g", timeout=3600)
        finally:
            os.remove(path)
        v = tlc.verdicts(r["out"])
        err = None
        if len(v) != len(b) or not tlc.tlc_ok(r):
            err = r["out"][-2000:]
        return v, r.get("distinct", 0), r.get("states", 0), err

    verdicts, states, trans, errs = {}, 0, 0, []
    with cf.ThreadPoolExecutor(par) as ex:
        for v, s, t, err in ex.map(one, enumerate(batches)):
            verdicts.update(v)
            states += s
            trans += t
            if err:
                errs.append(err)
    return verdicts, states, trans, errs


def sched_history(tr):
    """Scheduler-visible history of a recorded execution, in the vocabulary of SchedulerHist.tla."""
    h, inl = [], set()
    for e in tr["ev"]:
        if e["e"] == "dispatch":
            h.append(["disp", [e["n"]]])
        elif e["e"] == "skip":
            h.append(["skip", [e["n"]]])
        elif e["e"] == "enter" and e["k"] == "sched":
            inl.add(e["n"])
        elif e["e"] == "exit" and e["n"] in inl:
            h.append(["ie", [e["n"]]])
            inl.discard(e["n"])
        elif e["e"] == "wait_end":
            h.append(["wc" if e["k"] == "thread" else "wa", sorted(e["s"])])
        elif e["e"] == "return":
            h.append(["ok", []])
        elif e["e"] == "raise":
            h.append(["raise", []])
        elif e["e"] == "op_end":
            break
    return json.dumps(h)


def conformance(results, limit, par=6):
    """Code -> implementation-shaped model: every scheduler-visible history of the real code must be a
    history of Scheduler.tla for the same configuration (computed by TLC through SchedulerHist.tla)."""
    import sched_driver as sd

    picked = []
    for r in results:
        c = r["cfg"]
        if c["n"] <= 4 and (c.get("ops") or ["call"]) == ["call"] and not any(c.get("setup") or []) and r["traces"] and not r.get("error"):
            picked.append(r)
        if len(picked) >= limit:
            break
    if not picked:
        return {"configs": 0, "code_histories": 0, "model_histories": 0, "drift": [], "drift_count": 0, "states": 0, "transitions": 0, "errors": []}
    os.makedirs(common.CACHE, exist_ok=True)
    batches = [picked[i::par] for i in range(par) if picked[i::par]]

    def one(ib):
        i, b = ib
        path = os.path.join(common.CACHE, f"e1-hist-{os.getpid()}-{i}.json")
        cfgs = [{"cid": r["cfg"]["cid"], "n": r["cfg"]["n"], "deps": sd.full_deps(r["cfg"]), "mc": r["cfg"]["mc"], "prio": r["cfg"]["prio"],
                 "seq": r["cfg"]["seq"], "res": r["cfg"]["res"], "bad": r["cfg"].get("bad") or [], "off": sd.expected_off(r["cfg"])} for r in b]
        with open(path, "w") as f:
            json.dump({"cfgs": cfgs}, f)
        try:
            t = tlc.run_tlc("SchedulerHist", "SchedulerHist.cfg", env={"CFG_FILE": path}, workers=1, heap="3g", timeout=3600)
        finally:
            os.remove(path)
        H = {}
        for line in t["out"].splitlines():
            line = line.strip()
            if line.startswith('"HIST '):
                d = json.loads(line[6:-1].encode().decode("unicode_escape"))
                H.setdefault(d["c"], set()).add(json.dumps(d["h"]))
        return H, t.get("distinct", 0), t.get("states", 0), None if tlc.tlc_ok(t) else t["out"][-1000:]

    model, states, trans, errs = {}, 0, 0, []
    with cf.ThreadPoolExecutor(par) as ex:
        for H, s, t, err in ex.map(one, enumerate(batches)):
            for k, v in H.items():
                model.setdefault(k, set()).update(v)
            states += s
            trans += t
            if err:
                errs.append(err)
    drift, ncode, seen_code = [], 0, {}
    for r in picked:
        cid = r["cfg"]["cid"]
        for tr in r["traces"]:
            h = sched_history(tr)
            if h in seen_code.setdefault(cid, set()):
                continue
            seen_code[cid].add(h)
            ncode += 1
            if h not in model.get(cid, set()):
                drift.append({"cfg": r["cfg"], "history": json.loads(h)})
    model_only = sum(len(model.get(c, set()) - seen_code.get(c, set())) for c in model)
    # where no two nodes share a compound priority the model is as deterministic as the code: the two sets must be equal
    tiefree = [r for r in picked if len(set(sd.documented_cp(r["cfg"]))) == r["cfg"]["n"] and r["complete"]]
    tf_model_only = [(r["cfg"], sorted(model.get(r["cfg"]["cid"], set()) - seen_code.get(r["cfg"]["cid"], set())))
                     for r in tiefree if model.get(r["cfg"]["cid"], set()) - seen_code.get(r["cfg"]["cid"], set())]
    return {"configs": len(picked), "code_histories": ncode, "model_histories": sum(len(v) for v in model.values()),
            "model_only_histories": model_only, "tiefree_configs": len(tiefree),
            "tiefree_model_only": len(tf_model_only), "tiefree_model_only_samples": [{"cfg": c, "histories": [json.loads(h) for h in hs[:2]]} for c, hs in tf_model_only[:3]],
            "drift": drift[:5], "drift_count": len(drift), "states": states, "transitions": trans, "errors": errs[:2]}


def slim_trace(t):
    return {k: t[k] for k in t if k not in ("anomalies",)}


def run(tier, seed, log=common.say):
    import sched_driver as sd

    key = hashlib.sha256(f"{common.repo_hash()}|{common.machinery_hash()}|{tier}|{seed}".encode()).hexdigest()[:20]
    hit = common.cache_get("E1", key)
    if hit:
        hit["cached"] = True
        return hit
    t0 = time.time()
    res = {"engine": "E1", "tier": tier, "seed": seed}
    # (M) model checking in the background while the real code is explored
    # model runs share the machine with the exploration: few at a time in the thorough tier (their worker counts are large)
    pool = cf.ThreadPoolExecutor(4 if tier == "quick" else 1)
    mfuts = [pool.submit(run_model, r) for r in model_runs(tier)]
    # (T) exploration of the real scheduler
    cfgs, opts = plan(tier, seed)
    te = time.time()
    opts["deadline"] = time.time() + (600 if tier == "quick" else 3 * 3600)      # exploration budget (a healthy tree needs a fraction)
    results = sd.run_configs(cfgs, opts, seed=seed, procs=10 if tier == "quick" else 8)
    opts.pop("deadline", None)
    res["explore"] = {
        "configs": len(cfgs), "runs": sum(r["runs"] for r in results),
        "complete_configs": sum(1 for r in results if r["complete"]),
        "nondeterministic_replays": sum(r["nondet"] for r in results),
        "errors": [r["error"] for r in results if r.get("error")][:10],
        "skipped_after_budget": sum(1 for r in results if r.get("skipped")),
        "error_count": sum(1 for r in results if r.get("error")),
        "wall": round(time.time() - te, 1), "max_runs_per_config": opts["max_runs"],
    }
    seen = {}
    anomalies = []
    for r in results:
        for t in r["traces"]:
            k = trace_key(t)
            if k not in seen:
                t["cfg"] = r["cfg"]
                seen[k] = t
            if t["anomalies"]:
                anomalies.extend(t["anomalies"])
    traces = list(seen.values())
    for i, t in enumerate(traces):
        t["tid"] = i + 1
    res["explore"]["traces"] = sum(len(r["traces"]) for r in results)
    res["explore"]["distinct_traces"] = len(traces)
    res["explore"]["anomalies"] = anomalies[:10]
    res["explore"]["anomaly_count"] = len(anomalies)
    tv = time.time()
    verdicts, vs, vt, errs = validate(traces)
    res["validation"] = {"validated": len(verdicts), "states": vs, "transitions": vt,
                         "errors": errs[:3], "wall": round(time.time() - tv, 1)}
    counters = {}
    viol_counts = {}
    viols = []
    per_clause_kept = {}
    for t in traces:
        v = verdicts.get(t["tid"])
        if v is None:
            continue
        for k, val in v["cnt"].items():
            if val is True or (isinstance(val, int) and not isinstance(val, bool) and val > 0):
                counters[k] = counters.get(k, 0) + 1
        for x in v["viol"]:
            ck = f'{x["c"]}|{x["t"]}'
            viol_counts[ck] = viol_counts.get(ck, 0) + 1
            if per_clause_kept.get(ck, 0) < 5:
                per_clause_kept[ck] = per_clause_kept.get(ck, 0) + 1
                viols.append({"clause": x["c"], "tag": x["t"], "i": x["i"], "cfg": t["cfg"],
                              "script": t["script"], "op": t["op"], "trace": slim_trace(t)})
    res["counters"] = counters
    res["viol_counts"] = viol_counts
    res["violations"] = viols
    res["samples"] = [slim_trace(t) for t in traces[:: max(1, len(traces) // 3)][:3]]
    for s in res["samples"]:
        s.pop("cfg", None)
    res["conformance"] = conformance(results, 500 if tier == "quick" else 6000)
    res["model"] = [f.result() for f in mfuts]
    pool.shutdown()
    res["wall"] = round(time.time() - t0, 1)
    common.cache_put("E1", key, res)
    return res


CLAUSE_PROP = {"C02": "C02", "C03": "C03", "C04": "C04", "C05": "C05", "C06": "C06", "C08": "C08",
               "C09": "C09", "C14": "C14", "C10": "C10", "C17": "C17"}
MODEL_INV = {"C02": ["P02"], "C03": ["P03", "P03once"], "C04": ["P04"], "C05": ["P05"], "C06": ["P06"],
             "C08": ["P08", "P08still"], "C09": ["NoSpin", "NoStuck", "P09"], "C14": ["P14", "P14after"],
             "C10": ["P03"], "C17": ["P17"]}
NONTRIVIAL = {"C02": "depdisp", "C03": "returned", "C04": "mcfull", "C05": "seqdefer", "C06": "strict",
              "C08": "blockready", "C09": "disp", "C14": "failinflight", "C10": "skips", "C17": "async"}
RULES = {
    "C02": "traces in which a node with at least one dependency was dispatched (order and received values checked at its dispatch, entry and exit)",
    "C03": "traces of executions that returned normally (completeness, no double / extra / deactivated entry checked)",
    "C04": "traces in which max_concurrency pooled nodes were in flight at the same time (the bound was reached)",
    "C05": "traces in which a sequential candidate was deferred because something was in flight",
    "C06": "traces with a dispatch at which another delivered-ready node had a strictly smaller compound priority",
    "C08": "traces with a blocking wait entered while an unstarted node was ready (blocking had to be justified by the limit or a sequential node)",
    "C09": "traces of executions that dispatched at least one node and ended (return or raise) under the controller",
    "C14": "traces in which a node failed while other nodes were in flight",
    "C10": "traces in which a node was deactivated at run time",
    "C17": "traces in which an async-thread node was dispatched (it must be awaited through the event loop, never through a blocking wait)",
}


def report(prop, res):
    """Everything check.py needs for one property: violations, machinery problems, coverage."""
    viols = []
    for v in res["violations"]:
        if CLAUSE_PROP.get(v["clause"].split(".")[0]) != prop:
            continue
        sig = {"clause": v["clause"], "tag": v["tag"]}
        n_same = res["viol_counts"].get(f'{v["clause"]}|{v["tag"]}', 1)
        viols.append({"sig": sig,
                      "what": f'{v["clause"]} at event {v["i"]} of op {v["op"]} (tag={v["tag"] or "-"}; {n_same} events of this kind in this run)',
                      "replay": {"engine": "E1", "property": prop, "clause": v["clause"], "tag": v["tag"], "event": v["i"],
                                 "cfg": v["cfg"], "script": v["script"], "op": v["op"], "trace": v["trace"]}})
    mach = []
    wf = {k: n for k, n in res["viol_counts"].items() if k.startswith("WF.")}
    if wf:
        mach.append(f"ill-formed traces: {wf}")
    if res["validation"]["errors"]:
        mach.append("TLC trace validation failed: " + res["validation"]["errors"][0][-600:])
    if res["validation"]["validated"] != res["explore"]["distinct_traces"]:
        mach.append(f'validated {res["validation"]["validated"]} of {res["explore"]["distinct_traces"]} traces')
    if res["explore"]["error_count"]:
        mach.append(f'harness errors in {res["explore"]["error_count"]} configurations: {res["explore"]["errors"][:2]}')
    if res["conformance"]["errors"]:
        mach.append("TLC failed on SchedulerHist: " + res["conformance"]["errors"][0][-400:])
    if res["explore"]["anomaly_count"]:
        mach.append(f'controller anomalies: {res["explore"]["anomalies"][:3]}')
    if res["explore"].get("skipped_after_budget"):
        mach.append(f'{res["explore"]["skipped_after_budget"]} configurations were not explored: the time budget of the exploration was used up')
    if res["explore"]["nondeterministic_replays"] > max(5, res["explore"]["runs"] // 100):
        mach.append(f'{res["explore"]["nondeterministic_replays"]} of {res["explore"]["runs"]} schedule replays did not follow their script '
                    "(the controller does not own the scheduling nondeterminism on this machine)")
    invs = set(MODEL_INV.get(prop, []))
    mruns = [m for m in res["model"] if invs & set(m["invariants"] + m["properties"]) or (prop == "C08" and m["expect"])]
    for m in mruns:
        if not m["ok"]:
            mach.append(f'model run {m["name"]} did not give the expected result: {m["violated"] or m["tail"][-400:]}')
    nontriv = res["counters"].get(NONTRIVIAL[prop], 0)
    if nontriv < 2:
        mach.append(f"vacuous: only {nontriv} traces exercised the antecedent of {prop} ({NONTRIVIAL[prop]})")
    cov = {
        "states": sum(m["states"] for m in mruns) + res["validation"]["states"],
        "transitions": sum(m["transitions"] for m in mruns) + res["validation"]["transitions"],
        "traces_validated_against_impl": res["validation"]["validated"],
        "evaluations": res["explore"]["runs"],
        "distinct_nontrivial": nontriv,
        "rule": "every schedule (completion order at every blocking point and inline node) of the real scheduler for each "
                "explored configuration, depth-first over controller decisions; one trace per execution; distinct traces only. "
                "Non-trivial: " + RULES[prop],
        "samples": [{"n": s["n"], "mc": s["mc"], "deps": s["deps"], "seq": s["seq"], "res": s["res"], "cp": s["cp"],
                     "op": s["op"], "script": s["script"],
                     "events": [f'{e["e"]}:{e["n"]}:{e["k"]}:{e["s"]}' for e in s["ev"]]} for s in res["samples"][:2]],
        "exhaustive": False,
        "model_runs": [{k: m[k] for k in ("name", "consts", "invariants", "properties", "states", "transitions", "depth", "wall", "ok")} for m in mruns],
        "exploration": {k: res["explore"][k] for k in ("configs", "runs", "complete_configs", "distinct_traces", "max_runs_per_config", "nondeterministic_replays")},
        "antecedent_counters": res["counters"],
        "violation_counts": {k: n for k, n in res["viol_counts"].items() if k.startswith(prop)},
        "conformance_to_Scheduler_tla": {k: res["conformance"][k] for k in ("configs", "code_histories", "model_histories", "model_only_histories", "tiefree_configs", "tiefree_model_only", "drift_count", "states")},
        "model_drift": res["conformance"]["drift"][:2],
        "engine_cached": bool(res.get("cached")),
    }
    assumptions = [
        "the hooks (tawazi/_verif.py call sites) report dispatch, entry, exit, skip and wait events truthfully",
        "the controller's decision points (blocking waits, inline nodes) are the only scheduling nondeterminism the scheduler can observe",
        "model checking is exhaustive only inside the constants listed in model_runs; exploration of the code is exhaustive per configuration only when complete_configs == configs",
        "readiness for C06/C08.begin is the delivered view (DESIGN I1)",
    ]
    return {"violations": viols, "machinery": mach, "coverage": cov, "assumptions": assumptions, "level": "model_checking"}


def replay(payload, log=common.say):
    """Re-run one recorded (configuration, script) on the current tree and validate it again."""
    import sched_driver as sd
    import rt

    cfg, script = payload["cfg"], payload["script"]
    run = rt.run_history(cfg, script)
    traces = [t for t in sd.project(cfg, run)]
    for i, t in enumerate(traces):
        t["tid"] = i + 1
        t["script"] = script
    verdicts, _, _, errs = validate(traces)
    if errs:
        log("MACHINERY-FAILURE: " + errs[0][-500:])
        return 2
    found = False
    for t in traces:
        for x in verdicts[t["tid"]]["viol"]:
            log(f'  op={t["op"]} event={x["i"]} clause={x["c"]} tag={x["t"]}')
            if x["c"].split(".")[0] == payload["property"]:
                found = True
    log("replay: " + ("property violated again" if found else "no violation of this property on the current tree"))
    return 1 if found else 0
