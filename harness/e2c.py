"""Engine E2, compose part (C19): compose(inputs, outputs) on generated flat programs."""
import concurrent.futures as cf
import hashlib
import json
import os
import random
import time
import warnings

import common
import tlc

SERVES = ["C19"]
HELPS = ["C20", "C15"]


def observe(P, seed, n_cases):
    import prog_gen as pg
    import prog_run as pr
    from tawazi import _verif

    rng = random.Random(seed)
    rows = []
    nsites = len(P["sites"])
    try:
        d, flat = pr.build(P, lambda k: {}, mc=2)
    except BaseException as e:  # noqa: BLE001
        return [{"harness_error": "build: " + repr(e)[:150]}]
    id_of = {path[0]: iid for path, iid in flat}
    args0 = pg.gen_args(P, rng)
    ref0 = pr.plain_call(P, args0)
    setup_sites = [j for j, st in enumerate(P["sites"], 1) if st.get("setup")]
    # warm: the original has run (its setup results exist) before anything is composed; cold: compose first
    warm = rng.random() < 0.6
    base = pr.run_real(d, flat, [pg.encode(x) for x in args0], False) if warm else None
    plain_vals = {}
    if "val" in ref0:
        ex = {}
        try:
            bound = list(args0) + [pg.decode(p["v"]) for p in P["params"][len(args0):]]
            env_vals = []
            # site values of a plain run, to draw realistic input values from
            import prog_run
            def grab(PP, a):
                env = []
                def res(r):
                    if r["c"] == "const": return pg.decode(r["v"])
                    if r["c"] == "param": return prog_run.index(a[r["n"] - 1], r["path"])
                    if r["c"] == "site": return prog_run.index(env[r["n"] - 1], r["path"])
                    return None
                for s in PP["sites"]:
                    pos = [res(r) for r in s["args"]]
                    kws = {k["name"]: res(k["ref"]) for k in s["kw"]}
                    act = s["active"]["c"] == "none" or bool(res(s["active"]))
                    if not act:
                        env.append(None)
                    elif s["kind"] == "call":
                        env.append(prog_run.PLAIN[s["fn"]](*pos, **kws))
                    elif s["kind"] == "op":
                        env.append(prog_run.OPS[s["fn"]](*pos))
                    else:
                        env.append(prog_run.LOGIC[s["fn"]](*pos))
                return env
            plain_vals = dict(enumerate(grab(P, bound), 1))
        except Exception:  # noqa: BLE001
            plain_vals = {}
    for _ in range(n_cases):
        ell = rng.random() < 0.15
        k_in = 0 if ell else rng.choice([0, 1, 1, 2, 2, 3])
        plain_sites = [j for j in range(1, nsites + 1) if j not in setup_sites]     # a setup node is never given as an input
        ins = rng.sample(plain_sites, min(k_in, len(plain_sites)))
        single = rng.random() < 0.4
        outs = rng.sample(range(1, nsites + 1), 1 if single else min(nsites, rng.randint(1, 3)))
        if ell:
            vals = [pg.value_for(P["ptypes"][p], rng) for p in range(len(P["params"]))]
        else:
            vals = []
            for j in ins:
                if j in plain_vals and rng.random() < 0.6:
                    vals.append(plain_vals[j])
                else:
                    vals.append(rng.choice(pg.INT_VALUES + [True, False, None, 9]))
        def alias(j):
            return id_of[j] if rng.random() < 0.6 else d.exec_nodes[id_of[j]]
        held = {iid for iid in d.results}
        row = {"ins": ins, "outs": outs, "single": single, "ell": ell, "vals": [pg.encode(v) for v in vals],
               "raised": False, "stage": "", "errclass": "", "val": pg.verr(), "exec": [], "orig_same": True,
               "pre": [[j] for j in setup_sites if id_of[j] in held]}
        rec = pr.Recorder()
        try:
            with warnings.catch_warnings():
                warnings.simplefilter("ignore")
                c = d.compose("comp", ... if ell else [alias(j) for j in ins], alias(outs[0]) if single else [alias(j) for j in outs])
            row["stage"] = "call"
            _verif.sink = rec
            try:
                v = c(*vals)
            finally:
                _verif.sink = None
            row["val"] = pg.encode(v)
        except BaseException as e:  # noqa: BLE001
            row["raised"] = True
            row["stage"] = row["stage"] or "compose"
            row["errclass"] = pr.errclass(e)
            row["msg"] = str(e)[:160]
        inv = {iid: path for path, iid in flat}
        row["exec"] = sorted([list(inv[i]) for i in rec.entered if i in inv])
        # C20: the composed DAG called inside another DAG's describing function behaves as when it is called directly
        row.update({"nested": False, "nraised": False, "noccupied": False, "nval": pg.verr(), "nexec": [], "nerr": ""})
        if not row["raised"] and rng.random() < 0.6:
            row["nested"] = True
            rec2 = pr.Recorder()
            try:
                names = [f"q{i}" for i in range(len(vals))]
                src = f"def outer({', '.join(names)}):\n    return _c({', '.join(names)})\n"
                env = {"_c": c}
                exec(compile(src, "<e2c outer>", "exec"), env)  # noqa: S102
                from tawazi import dag as _dag
                with warnings.catch_warnings():
                    warnings.simplefilter("ignore")
                    outer = _dag(env["outer"])
                _verif.sink = rec2
                try:
                    row["nval"] = pg.encode(outer(*vals))
                finally:
                    _verif.sink = None
            except BaseException as e:  # noqa: BLE001
                row["nraised"] = True
                row["nerr"] = (pr.errclass(e) + ": " + str(e))[:160]
                row["noccupied"] = isinstance(e, KeyError)     # the stub of an input got another id: "already occupied" or missing later
            pref = c.qualname + "."
            given = {id_of[j] for j in ins}
            row["nexec"] = sorted([list(inv[i[len(pref):]]) for i in rec2.entered
                                   if i.startswith(pref) and i[len(pref):] in inv and i[len(pref):] not in given])
        if any(i not in inv for i in rec.entered) and not row["raised"]:
            row["raised"], row["errclass"] = True, "holder-executed"
        again = pr.run_real(d, flat, [pg.encode(x) for x in args0], False)
        nosetup = lambda ex: [p for p in ex if p[0] not in setup_sites]  # noqa: E731  (setup sites run once per object)
        if base is None:
            # cold: the original is compared with the plain evaluation of the program
            if "val" in ref0:
                row["orig_same"] = (not again["raised"]) and again["val"] == ref0["val"] and nosetup(again["exec"]) == nosetup(ref0["exec"])
            base = again
        elif base["raised"]:
            # a failing original: which nodes were entered before the failure depends on thread timing
            row["orig_same"] = again["raised"] and again["errclass"] == base["errclass"]
        else:
            row["orig_same"] = (again["raised"], again["val"], nosetup(again["exec"])) == (False, base["val"], nosetup(base["exec"]))
        rows.append(row)
    return rows


def _work(args):
    out = []
    for (idx, P, seed, n) in args:
        try:
            out.append((idx, observe(P, seed, n)))
        except BaseException as e:  # noqa: BLE001
            out.append((idx, [{"harness_error": repr(e)[:200]}]))
    return out


def run(tier, seed, log=common.say):
    import multiprocessing as mp
    import prog_gen as pg
    from e2 import _mismatch_lines

    key = hashlib.sha256(f"{common.repo_hash()}|{common.machinery_hash()}|{tier}|{seed}".encode()).hexdigest()[:20]
    hit = common.cache_get("E2C", key)
    if hit:
        hit["cached"] = True
        return hit
    t0 = time.time()
    rng = random.Random(seed + 77)
    nprog, ncase = (500, 5) if tier == "quick" else (6000, 8)
    progs = [pg.gen_program(rng, nsites=rng.randint(2, 6), max_depth=0, p_sub=0.0) for _ in range(nprog)]
    jobs = [(i, P, rng.randrange(1 << 30), ncase) for i, P in enumerate(progs)]
    chunks = [jobs[i:i + 20] for i in range(0, len(jobs), 20)]
    results = {}
    pool = mp.get_context("fork").Pool(12, maxtasksperchild=10)
    for part in pool.imap(_work, chunks):
        for idx, rows in part:
            results[idx] = rows
    pool.close()
    pool.join()
    herr = [r[0]["harness_error"] for r in results.values() if r and "harness_error" in r[0]]
    obs = []
    for idx in sorted(results):
        for row in results[idx]:
            if "harness_error" not in row:
                row["p"] = idx + 1
                obs.append(row)
    stripped = [pg.strip(P) for P in progs]
    batches = [obs[i:i + 1500] for i in range(0, len(obs), 1500)]

    def one(ib):
        i, b = ib
        used = sorted({r["p"] for r in b})
        remap = {p: k + 1 for k, p in enumerate(used)}
        path = os.path.join(common.CACHE, f"e2c-{os.getpid()}-{i}.json")
        os.makedirs(common.CACHE, exist_ok=True)
        keys = ("ins", "outs", "single", "ell", "vals", "raised", "stage", "errclass", "val", "exec", "orig_same", "pre", "nested", "nraised", "noccupied", "nval", "nexec")
        with open(path, "w") as f:
            json.dump({"progs": [stripped[p - 1] for p in used], "obs": [{"p": remap[r["p"]], **{k: r[k] for k in keys}} for r in b]}, f)
        try:
            r = tlc.run_tlc("CompCheck", "CompCheck.cfg", env={"CASE_FILE": path}, workers=1, heap="3g", timeout=3600)
        finally:
            os.remove(path)
        mm = _mismatch_lines(r["out"], "MISMATCH")
        cc = _mismatch_lines(r["out"], "COUNTS")
        return i, mm, (cc[0] if cc else {}), r.get("distinct", 0), r.get("states", 0), None if tlc.tlc_ok(r) and cc else r["out"][-1500:]

    mism, counts, states, trans, errs = [], {}, 0, 0, []
    with cf.ThreadPoolExecutor(8) as ex:
        for i, mm, cc, s, t, err in ex.map(one, enumerate(batches)):
            for m in mm:
                m["row"] = batches[i][m["o"] - 1]
            mism += mm
            for k, v in cc.items():
                counts[k] = counts.get(k, 0) + v
            states += s
            trans += t
            if err:
                errs.append(err)
    viol_counts, viols, kept = {}, [], {}
    for m in mism:
        for c in m["c"]:
            viol_counts[c] = viol_counts.get(c, 0) + 1
            if kept.get(c, 0) < 4:
                kept[c] = kept.get(c, 0) + 1
                viols.append({"clause": c, "prog": stripped[m["row"]["p"] - 1], "ptypes": progs[m["row"]["p"] - 1]["ptypes"], "row": m["row"],
                              "expected": m.get("expval"), "expexec": m.get("expexec")})
    res = {"engine": "E2C", "tier": tier, "seed": seed, "programs": len(progs), "observations": len(obs), "harness_errors": herr[:5],
           "harness_error_count": len(herr), "counts": counts, "states": states, "transitions": trans, "tlc_errors": errs[:2],
           "viol_counts": viol_counts, "violations": viols,
           "samples": [{"program": stripped[r["p"] - 1], **{k: r[k] for k in ("ins", "outs", "single", "ell", "vals", "val", "exec", "raised", "errclass")}}
                       for r in obs[:: max(1, len(obs) // 2)][:2]],
           "wall": round(time.time() - t0, 1)}
    common.cache_put("E2C", key, res)
    return res


def report(prop, res):
    viols = []
    for v in res["violations"]:
        if v["clause"].split(".")[0] != prop:
            continue
        r = v["row"]
        viols.append({"sig": {"clause": v["clause"]},
                      "what": f'{v["clause"]}: compose(inputs={"..." if r["ell"] else r["ins"]}, outputs={r["outs"]}) values {json.dumps(r["vals"])[:120]} -> '
                              f'raised={r["raised"]} {r["errclass"]} {r.get("msg", "")[:100]} value {json.dumps(r["val"])[:160]} executed {r["exec"]}; '
                              f'expected {json.dumps(v["expected"])[:160]} executed {v["expexec"]}; {res["viol_counts"][v["clause"]]} such observations',
                      "replay": {"engine": "E2C", "property": prop, "clause": v["clause"], "prog": v["prog"], "ptypes": v["ptypes"], "row": r}})
    mach = []
    if res["tlc_errors"]:
        mach.append("TLC failed: " + res["tlc_errors"][0][-500:])
    if res["harness_error_count"]:
        mach.append(f'harness errors: {res["harness_errors"][:2]}')
    if res["counts"].get("rows", 0) != res["observations"]:
        mach.append(f'TLC evaluated {res["counts"].get("rows")} of {res["observations"]} observations')
    nontriv = res["counts"].get("nested" if prop == "C20" else "rows" if prop == "C15" else "ineq", 0)
    if nontriv < 2:
        mach.append(f"vacuous: {nontriv} non-trivial compositions")
    cov = {"states": res["states"], "transitions": res["transitions"], "traces_validated_against_impl": res["observations"],
           "evaluations": res["observations"], "distinct_nontrivial": nontriv,
           "rule": "observations = (generated flat program, inputs: 0-3 call sites or Ellipsis, outputs: a single alias or 1-3 aliases, by id or node "
                   "reference, input values drawn from a plain run or random); observed: error class and stage, returned value, executed call sites, and "
                   "whether the original DAG behaves as before. Non-trivial: no documented caller error applies and the substituted body does not raise",
           "samples": res["samples"], "exhaustive": False, "programs": res["programs"], "counts": res["counts"],
           "violation_counts": res["viol_counts"], "engine_cached": bool(res.get("cached"))}
    assumptions = ["spec/Compose.tla defines the needed closure, the caller errors and the substituted evaluation; TLC evaluates it on every observation",
                   "an alias that is both input and output is accepted with ValueError or with the substituted value (DESIGN I4b)",
                   "flat programs only (a composed DAG of a DAG with nested DAGs has already-spliced ids and is covered through the flat form)"]
    return {"violations": viols, "machinery": mach, "coverage": cov, "assumptions": assumptions, "level": "model_checking"}


def replay(payload, log=common.say):
    import prog_gen as pg
    from e2 import _mismatch_lines

    log("replay of a compose case re-runs the whole program with the recorded seed is not supported; re-observing the recorded row")
    row = payload["row"]
    P = dict(payload["prog"], ptypes=payload.get("ptypes", []))
    import prog_run as pr
    from tawazi import _verif
    d, flat = pr.build(P, lambda k: {}, mc=2)
    id_of = {path[0]: iid for path, iid in flat}
    vals = [pg.decode(v) for v in row["vals"]]
    new = dict(row, raised=False, stage="", errclass="", val=pg.verr(), exec=[], orig_same=True, pre=row.get("pre", []),
               nested=False, nraised=False, noccupied=False, nval=pg.verr(), nexec=[])
    rec = pr.Recorder()
    try:
        with warnings.catch_warnings():
            warnings.simplefilter("ignore")
            c = d.compose("comp", ... if row["ell"] else [id_of[j] for j in row["ins"]],
                          id_of[row["outs"][0]] if row["single"] else [id_of[j] for j in row["outs"]])
        _verif.sink = rec
        try:
            new["val"] = pg.encode(c(*vals))
        finally:
            _verif.sink = None
    except BaseException as e:  # noqa: BLE001
        new["raised"], new["errclass"] = True, pr.errclass(e)
    inv = {iid: path for path, iid in flat}
    new["exec"] = sorted([list(inv[i]) for i in rec.entered if i in inv])
    if row.get("nested") and not new["raised"]:
        new["nested"] = True
        rec2 = pr.Recorder()
        try:
            names = [f"q{i}" for i in range(len(vals))]
            env = {"_c": c}
            exec(compile(f"def outer({', '.join(names)}):\n    return _c({', '.join(names)})\n", "<e2c outer>", "exec"), env)  # noqa: S102
            from tawazi import dag as _dag
            outer = _dag(env["outer"])
            _verif.sink = rec2
            try:
                new["nval"] = pg.encode(outer(*vals))
            finally:
                _verif.sink = None
        except BaseException as e:  # noqa: BLE001
            new["nraised"] = True
            new["noccupied"] = isinstance(e, KeyError)     # the stub of an input got another id: "already occupied" or missing later
            log(f"nested call failed: {e!r}")
        pref = c.qualname + "."
        given = {id_of[j] for j in row["ins"]}
        new["nexec"] = sorted([list(inv[i[len(pref):]]) for i in rec2.entered if i.startswith(pref) and i[len(pref):] in inv and i[len(pref):] not in given])
    path = os.path.join(common.CACHE, f"e2c-replay-{os.getpid()}.json")
    keys = ("ins", "outs", "single", "ell", "vals", "raised", "stage", "errclass", "val", "exec", "orig_same", "pre", "nested", "nraised", "noccupied", "nval", "nexec")
    with open(path, "w") as f:
        json.dump({"progs": [payload["prog"]], "obs": [{"p": 1, **{k: new[k] for k in keys}}]}, f)
    r = tlc.run_tlc("CompCheck", "CompCheck.cfg", env={"CASE_FILE": path}, workers=1)
    os.remove(path)
    mm = _mismatch_lines(r["out"], "MISMATCH")
    log(f"observed: {new}")
    hit = any(c.split(".")[0] == payload["property"] for m in mm for c in m["c"])
    for m in mm:
        log(f'  clauses {m["c"]}')
    log("replay: " + ("property violated again" if hit else "no violation of this property on the current tree"))
    return 1 if hit else 0
