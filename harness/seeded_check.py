#!/venv/bin/python
"""Re-run the designated check against every stored seeded change (seeded/<name>/patch.diff).

seeded_check.py [name-prefix ...]: each patch is applied to a scratch worktree of /repo under /tmp, the
property's quick check is run with VERIF_REPO pointing there and must exit 1 (the change is detected).
Not part of any property's verdict.
"""
import json
import os
import signal
import subprocess
import sys

VERIF = os.path.dirname(os.path.dirname(os.path.abspath(__file__)))
WT = os.environ.get("VERIF_SEEDED_WT", "/tmp/verif-seeded-wt")


def sh(*a, **k):
    return subprocess.run(a, capture_output=True, text=True, **k)


def main():
    names = sorted(n for n in os.listdir(os.path.join(VERIF, "seeded")) if os.path.isfile(os.path.join(VERIF, "seeded", n, "patch.diff")))
    names = [n for n in names if not sys.argv[1:] or any(n.startswith(p) for p in sys.argv[1:])]
    sh("git", "-C", "/repo", "worktree", "remove", "--force", WT)
    r = sh("git", "-C", "/repo", "worktree", "add", "--detach", WT, "HEAD")
    if r.returncode:
        print(r.stderr)
        return 2
    missed = 0
    try:
        for n in names:
            meta = json.load(open(os.path.join(VERIF, "seeded", n, "meta.json")))
            prop = meta["property"]
            sh("git", "-C", WT, "reset", "--hard", "-q", "HEAD")
            sh("git", "-C", WT, "clean", "-fdq")
            a = sh("git", "-C", WT, "apply", os.path.join(VERIF, "seeded", n, "patch.diff"))
            if a.returncode:      # the tree has moved on since the change was written: fall back to a three-way merge
                a = sh("git", "-C", WT, "apply", "--3way", os.path.join(VERIF, "seeded", n, "patch.diff"))
            if a.returncode:
                print(f"{n}: PATCH DOES NOT APPLY ANY MORE {a.stderr.strip()[:160]}", flush=True)
                continue
            env = dict(os.environ, VERIF_REPO=WT, VERIF_EVIDENCE_DIR=WT + "-evidence")
            pr = subprocess.Popen(["/venv/bin/python", os.path.join(VERIF, "harness", "check.py"), prop, "--tier", "quick"], env=env,
                                  stdout=subprocess.PIPE, stderr=subprocess.PIPE, text=True, start_new_session=True)
            try:
                out, err = pr.communicate(timeout=3000)
                p = subprocess.CompletedProcess(pr.args, pr.returncode, out, err)
            except subprocess.TimeoutExpired:
                os.killpg(pr.pid, signal.SIGKILL)       # the check and the workers / TLC processes it started
                pr.communicate()
                missed += 1
                print(f"{n}: {prop} TIMEOUT after 3000 s: counted as MISSED", flush=True)
                continue
            lines = [ln for ln in p.stdout.splitlines() if ln.startswith(("VIOLATION", "OK", "MACH", "  C", "  ["))][:2]
            ok = p.returncode == 1
            if meta.get("not_covered"):
                # a change the framework is documented not to reach (the reason is in its meta.json): reported, not counted
                print(f"{n}: {prop} exit={p.returncode} {'detected (although listed as not covered)' if ok else 'not covered (documented)'}", flush=True)
                continue
            missed += not ok
            print(f"{n}: {prop} exit={p.returncode} {'detected' if ok else 'MISSED'} {[x[:110] for x in lines]}", flush=True)
    finally:
        sh("git", "-C", "/repo", "worktree", "remove", "--force", WT)
        sh("rm", "-rf", WT + "-evidence")
    print(f"{len(names)} seeded changes, {missed} missed")
    return 1 if missed else 0


if __name__ == "__main__":
    sys.exit(main())
