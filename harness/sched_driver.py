"""Engine E1 driver: configurations, exhaustive schedule exploration of the real scheduler, traces.

Everything random is derived from the seed given by the caller.
"""
import hashlib
import itertools
import json
import multiprocessing as mp
import os
import random
import sys
import time

HERE = os.path.dirname(os.path.abspath(__file__))
if HERE not in sys.path:
    sys.path.insert(0, HERE)

RESOURCES = ("thread", "async", "main")


# ------------------------------------------------------------------ configurations
def all_shapes(n):
    """All DAG shapes on n topologically numbered nodes: deps[k] subset of 1..k-1."""
    per_node = []
    for k in range(1, n + 1):
        prev = list(range(1, k))
        per_node.append([list(c) for r in range(len(prev) + 1) for c in itertools.combinations(prev, r)])
    return [list(x) for x in itertools.product(*per_node)]


def descendants(n, deps):
    succ = {k: set() for k in range(1, n + 1)}
    for k in range(1, n + 1):
        for d in deps[k - 1]:
            succ[d].add(k)
    desc = {}
    for k in range(n, 0, -1):
        s = set()
        for c in succ[k]:
            s |= {c} | desc[c]
        desc[k] = s
    return desc


def full_deps(cfg):
    act = cfg.get("act") or [None] * cfg["n"]
    out = []
    for k in range(cfg["n"]):
        d = list(cfg["deps"][k])
        if act[k] is not None and act[k][0] == "node" and act[k][1] not in d:
            d.append(act[k][1])
        out.append(sorted(set(d)))
    return out


def effective(cfg):
    """Priorities and sequential flags in force when the DAG runs (after an optional reconfiguration)."""
    rc = cfg.get("reconf")
    if not rc:
        return cfg["prio"], cfg["seq"]
    keys = rc.get("keys") or ["both"] * cfg["n"]        # which attributes the entry of a named node spells out: what it leaves out stays
    prio = [rc["prio"][k] if rc["named"][k] and keys[k] in ("both", "prio") else cfg["prio"][k] for k in range(cfg["n"])]
    seq = [rc["seq"][k] if rc["named"][k] and keys[k] in ("both", "seq") else cfg["seq"][k] for k in range(cfg["n"])]
    return prio, seq


def documented_cp(cfg):
    """own priority + priorities of the set of distinct descendants (property C06/C07)."""
    deps = full_deps(cfg)
    desc = descendants(cfg["n"], deps)
    prio, _ = effective(cfg)
    return [prio[k - 1] + sum(prio[d - 1] for d in desc[k]) for k in range(1, cfg["n"] + 1)]


def expected_off(cfg):
    act = cfg.get("act") or [None] * cfg["n"]
    truthy = cfg.get("truthy") or [True] * cfg["n"]
    off = set()
    for k in range(1, cfg["n"] + 1):
        a = act[k - 1]
        if a is None:
            continue
        if a[0] in ("const", "arg"):
            if not a[1]:
                off.add(k)
        elif a[0] == "node":
            j = a[1]
            if j in off or not truthy[j - 1]:
                off.add(k)
    return sorted(off)


def argsrc(cfg):
    out = []
    for k in range(cfg["n"]):
        d = cfg["deps"][k]
        kw = (cfg.get("kw") or [[False] * len(x) for x in cfg["deps"]])[k]
        pos = [x for x, isk in zip(d, kw) if not isk]
        kws = sorted((f"p{j}", x) for j, (x, isk) in enumerate(zip(d, kw)) if isk)
        out.append(pos + [x for _, x in kws])
    return out


def cfg_key(cfg):
    return hashlib.sha1(json.dumps(cfg, sort_keys=True).encode()).hexdigest()[:12]


def small_configs(n, mcs, rng, sample=None, fails=1, inact=1, flavours=("sync", "async"), prios=False):
    """The space of small configurations (all shapes x seq x res x mc x <=1 bad x <=1 off).

    With sample=None the whole space is returned, otherwise a stratified sample: every
    (shape, mc) stratum gets the same number of draws of the remaining attributes.
    """
    shapes = all_shapes(n)
    nodes = list(range(1, n + 1))
    bads = [[]] + ([[k] for k in nodes] if fails else [])
    offs = [None] + (nodes if inact else [])
    out = []
    if sample is None:
        for shape in shapes:
            for mc in mcs:
                for seq in itertools.product([False, True], repeat=n):
                    for res in itertools.product(RESOURCES, repeat=n):
                        for bad in bads:
                            for off in offs:
                                out.append(_mk(n, shape, mc, list(seq), list(res), bad, off, rng, flavours, prios))
        return out
    per = max(1, sample // (len(shapes) * len(mcs)))
    for shape in shapes:
        for mc in mcs:
            for _ in range(per):
                seq = [rng.random() < 0.3 for _ in nodes]
                res = [rng.choice(RESOURCES) for _ in nodes]
                bad = rng.choice(bads) if rng.random() < 0.35 else []
                off = rng.choice(offs) if rng.random() < 0.3 else None
                out.append(_mk(n, shape, mc, seq, res, bad, off, rng, flavours, prios))
    return out


def _mk(n, shape, mc, seq, res, bad, off, rng, flavours, prios):
    act = [None] * n
    truthy = [True] * n
    if off is not None:
        # a flag that is falsy: constant, DAG argument, or the (falsy) result of an earlier node
        forms = ["const", "arg"] + (["node"] if off > 1 else [])
        form = rng.choice(forms)
        if form == "node":
            j = rng.randrange(1, off)
            act[off - 1] = ["node", j]
            truthy[j - 1] = False
        else:
            act[off - 1] = [form, False]
    elif rng.random() < 0.2:
        k = rng.randrange(1, n + 1)
        act[k - 1] = [rng.choice(["const", "arg"]), True]
    deps = [rng.sample(d, len(d)) for d in shape]
    prio = [rng.choice([-1, 0, 0, 1, 2, 5]) for _ in range(n)] if prios else [0] * n
    cfg = {"n": n, "deps": deps, "mc": mc, "prio": prio, "seq": seq, "res": res, "bad": bad,
           "act": act, "truthy": truthy, "flavour": rng.choice(flavours), "profile": rng.random() < 0.2}
    cfg["cid"] = cfg_key(cfg)
    return cfg


def random_config(rng, nmin=4, nmax=7):
    n = rng.randint(nmin, nmax)
    p_edge = rng.choice([0.2, 0.35, 0.5])
    deps = []
    for k in range(1, n + 1):
        d = [j for j in range(1, k) if rng.random() < p_edge]
        rng.shuffle(d)
        deps.append(d[:4])
    mc = rng.randint(1, 4)
    style = rng.random()
    if style < 0.3:
        prio = [0] * n
    elif style < 0.6:
        prio = [rng.choice([-3, -1, 0, 1, 2, 7]) for _ in range(n)]
    else:
        prio = rng.sample(range(-n, 2 * n), n)
    seq = [rng.random() < 0.2 for _ in range(n)]
    w = rng.choice([(6, 2, 2), (3, 4, 3), (1, 1, 1), (8, 0, 2), (0, 8, 2)])
    res = [rng.choices(RESOURCES, weights=w)[0] for _ in range(n)]
    nbad = rng.choices([0, 1, 2], weights=[6, 3, 1])[0]
    bad = sorted(rng.sample(range(1, n + 1), nbad))
    act = [None] * n
    truthy = [rng.random() < 0.8 for _ in range(n)]
    for k in range(1, n + 1):
        if rng.random() < 0.2:
            form = rng.choice(["const", "arg", "node"] if k > 1 else ["const", "arg"])
            act[k - 1] = ["node", rng.randrange(1, k)] if form == "node" else [form, rng.random() < 0.5]
    # debug nodes: a node may be a debug node when everything that depends on it is one (checked when the DAG is built)
    debug = [False] * n
    run_debug = False
    if rng.random() < 0.3:
        run_debug = rng.random() < 0.7
        for k in range(n, 0, -1):
            users = [m for m in range(k + 1, n + 1) if k in deps[m - 1] or (act[m - 1] is not None and act[m - 1][0] == "node" and act[m - 1][1] == k)]
            if all(debug[m - 1] for m in users) and rng.random() < (0.5 if not users else 0.3):
                debug[k - 1] = True
    setup = [False] * n
    if rng.random() < 0.3:
        for k in range(1, n + 1):
            if act[k - 1] is None and not debug[k - 1] and all(setup[d - 1] for d in deps[k - 1]) and rng.random() < 0.6:
                setup[k - 1] = True
    # a non-setup node may depend on setup nodes, a setup node on setup nodes only (enforced above)
    ops = ["call"]
    if any(setup):
        ops = rng.choice([["call"], ["setup", "call"], ["call", "call"], ["setup", "call", "call"]])
    elif rng.random() < 0.1:
        ops = ["call", "call"]
    kw = [[rng.random() < 0.25 for _ in d] for d in deps]
    fn = list(range(1, n + 1))
    if rng.random() < 0.3:
        # share a decorated function between nodes with equal attributes (ids f, f<<1>>, ...)
        for a in range(1, n + 1):
            for b in range(a + 1, n + 1):
                same = (prio[a - 1], seq[a - 1], res[a - 1], setup[a - 1], debug[a - 1]) == (prio[b - 1], seq[b - 1], res[b - 1], setup[b - 1], debug[b - 1])
                if same and rng.random() < 0.5 and fn[b - 1] == b:
                    fn[b - 1] = fn[a - 1]
    if rng.random() < 0.3:
        sel = {}
        nodes = list(range(1, n + 1))
        if rng.random() < 0.7:
            sel["t"] = rng.sample(nodes, rng.randint(1, min(3, n)))
        if rng.random() < 0.3:
            sel["x"] = rng.sample(nodes, 1)
        if rng.random() < 0.2:
            roots = [k for k in nodes if not deps[k - 1]]
            sel["r"] = rng.sample(roots, rng.randint(1, len(roots)))
        ops = ops[:-1] + [["exec", sel]] if rng.random() < 0.7 else ops + [["exec", sel]]
    cfg = {"n": n, "deps": deps, "mc": mc, "prio": prio, "seq": seq, "res": res, "bad": bad,
           "act": act, "truthy": truthy, "setup": setup, "ops": ops, "kw": kw, "fn": fn,
           "debug": debug, "run_debug": run_debug, "profile": rng.random() < 0.25, "flavour": rng.choice(["sync", "async"])}
    if rng.random() < 0.2:
        cfg["logging"] = True
    if rng.random() < 0.25 and fn == list(range(1, n + 1)):
        cfg["reconf"] = {"prio": [rng.choice([-3, 0, 1, 4, 9]) for _ in range(n)], "seq": [rng.random() < 0.2 for _ in range(n)],
                         "named": [rng.random() < 0.6 for _ in range(n)], "via": rng.choice(["dict", "json", "yaml"]),
                         "mc": rng.choice([None, None, 1, 2, 3, 4])}
        if rng.random() < 0.5:
            # entries that spell out only one of the two attributes: the other one stays as it was
            cfg["reconf"]["keys"] = [rng.choice(["both", "prio", "seq"]) for _ in range(n)]
        elif rng.random() < 0.5:
            # the nodes that get the same new values are addressed through one tag; the same dict may be applied twice
            cfg["reconf"].update({"bytag": True, "twice": rng.random() < 0.5})
            if rng.random() < 0.7:
                pr, sq = rng.choice([0, 4, 9]), rng.random() < 0.6
                for k in rng.sample(range(n), min(n, rng.randint(2, 3))):
                    cfg["reconf"]["prio"][k], cfg["reconf"]["seq"][k], cfg["reconf"]["named"][k] = pr, sq, True
    cfg["cid"] = cfg_key(cfg)
    return cfg


def debug_selection_config(rng):
    """An executor restricted to target nodes, with RUN_DEBUG_NODES on and prioritised debug nodes hanging below
    the selected leaves (they are pulled into the run and compete with ordinary nodes)."""
    n = rng.randint(4, 6)
    nreg = rng.randint(2, n - 2)
    deps = []
    for k in range(1, n + 1):
        if k <= nreg:
            deps.append([j for j in range(1, k) if rng.random() < 0.4])
        else:
            base = [j for j in range(1, nreg + 1) if rng.random() < 0.5] or [rng.randint(1, nreg)]
            deps.append(sorted(set(base + [j for j in range(nreg + 1, k) if rng.random() < 0.3])))
    debug = [k > nreg for k in range(1, n + 1)]
    targets = sorted({d for k in range(nreg + 1, n + 1) for d in deps[k - 1] if d <= nreg})
    cfg = {"n": n, "deps": deps, "mc": rng.choice([1, 1, 2]), "prio": [rng.choice([0, 1, 2, 5, 9]) for _ in range(n)],
           "seq": [False] * n, "res": [rng.choice(RESOURCES) for _ in range(n)], "bad": [], "act": [None] * n, "truthy": [True] * n,
           "setup": [False] * n, "debug": debug, "run_debug": True, "ops": [["exec", {"t": targets}]],
           "kw": [[False] * len(d) for d in deps], "fn": list(range(1, n + 1)), "flavour": rng.choice(["sync", "async"])}
    cfg["cid"] = cfg_key(cfg)
    return cfg


def reconf_config(rng):
    """A configuration reload (dict / JSON / YAML) that names several nodes, changes the priority of some of them so that the
    order of ready nodes flips, and leaves the priority of others - in particular of the LAST entry - as it was (only
    is_sequential is restated): the schedule must follow the reloaded table whichever entries changed (C06 / C07 / C05)."""
    while True:
        cfg = random_config(rng, 3, 5)
        if cfg["fn"] == list(range(1, cfg["n"] + 1)) and not any(cfg["setup"]) and not any(cfg["debug"]) and cfg["ops"] == ["call"]:
            break
    n = cfg["n"]
    cfg["mc"] = rng.choice([1, 1, 2])
    cfg["bad"] = []
    k = rng.randint(2, n)
    named_nodes = sorted(rng.sample(range(n), k))
    changed = set(rng.sample(named_nodes[:-1], rng.randint(1, len(named_nodes) - 1))) if rng.random() < 0.7 else set(named_nodes)
    prio2 = list(cfg["prio"])
    for j in changed:
        prio2[j] = rng.choice([v for v in (-5, 11, 12, 13) if v != cfg["prio"][j]])
    cfg["reconf"] = {"prio": prio2, "seq": list(cfg["seq"]), "named": [j in named_nodes for j in range(n)],
                     "via": rng.choice(["dict", "json", "yaml"]), "mc": None}
    if rng.random() < 0.6:
        # the entries spell out the priority only: a sequential node stays sequential
        cfg["reconf"]["keys"] = ["prio" if j in changed else rng.choice(["prio", "both"]) for j in range(n)]
        for j in rng.sample(named_nodes, rng.randint(1, len(named_nodes))):
            cfg["seq"][j] = True
        cfg["reconf"]["seq"] = list(cfg["seq"])
        cfg["mc"] = rng.choice([2, 3])          # an overlap with a node that wrongly lost its flag must be possible
        cfg["res"] = [r if r != "main" else "thread" for r in cfg["res"]]
        cfg["cid"] = cfg_key(cfg)
    cfg["cid"] = cfg_key(cfg)
    return cfg


def pool_pressure_config(rng):
    """More ready pooled nodes than the pool has room for, after a first node of another resource has finished: the bound of
    max_concurrency must hold (and the pool be kept full) whatever kinds of futures finished earlier in the run (C04 / C08)."""
    mc = rng.choice([1, 2, 2, 3])
    k = mc + rng.randint(1, 2)
    n = 1 + k + rng.randint(0, 1)
    deps = [[] for _ in range(n)]
    prio = [0] * n
    res = ["thread"] * n
    res[0] = rng.choice(["async", "async", "thread", "main"])
    prio[0] = 50
    for j in range(2, 2 + k):
        deps[j - 1] = [1] if rng.random() < 0.7 else []
        prio[j - 1] = rng.choice([1, 2, 3, 4])
        res[j - 1] = rng.choices(["thread", "async"], weights=rng.choice([(9, 1), (1, 9), (1, 1)]))[0]
    for j in range(2 + k, n + 1):
        deps[j - 1] = [rng.randint(2, 1 + k)]
        res[j - 1] = rng.choice(["thread", "async", "main"])
    cfg = {"n": n, "deps": deps, "mc": mc, "prio": prio, "seq": [False] * n, "res": res, "bad": [],
           "act": [None] * n, "truthy": [True] * n, "setup": [False] * n, "debug": [False] * n, "run_debug": False,
           "ops": ["call"], "kw": [[False] * len(d) for d in deps], "fn": list(range(1, n + 1)), "profile": False,
           "flavour": rng.choice(["sync", "sync", "async"])}
    cfg["patient"] = rng.random() < 0.3
    cfg["cid"] = cfg_key(cfg)
    return cfg


def setup_roots_config(rng):
    """setup(root_nodes=[r]) on setup nodes that form a diamond (or a chain with a side input) below r: a join starts only
    after ALL its dependencies have returned, also in a setup run restricted by roots (C02), then the DAG is called."""
    shape = rng.choice(["diamond", "diamond", "double"])
    if shape == "diamond":
        deps = [[], [1], [1], [2, 3]]
    else:
        deps = [[], [1], [1], [2, 3], [3, 4]]
    ns = len(deps)
    nreg = rng.randint(1, 2)
    for _ in range(nreg):
        deps.append(sorted(rng.sample(range(1, ns + 1), rng.randint(1, 2))))
    n = len(deps)
    res = [rng.choice(["thread", "thread", "async"]) for _ in range(n)]
    prio = [rng.choice([0, 1, 2, 5]) for _ in range(n)]
    cfg = {"n": n, "deps": deps, "mc": rng.choice([2, 2, 3]), "prio": prio, "seq": [False] * n, "res": res, "bad": [],
           "act": [None] * n, "truthy": [True] * n, "setup": [True] * ns + [False] * nreg, "debug": [False] * n, "run_debug": False,
           "ops": [["setup", {"r": [1]}], "call"], "kw": [[False] * len(d) for d in deps], "fn": list(range(1, n + 1)), "profile": False,
           "flavour": rng.choice(["sync", "sync", "async"])}
    cfg["cid"] = cfg_key(cfg)
    return cfg


def seq_hold_config(rng):
    """A sequential node that is started while other nodes are ready, and whose function takes a while: the scheduler has to
    stay blocked until it has returned, however long that takes (C05; the controller is patient here, see rt.PATIENCE)."""
    n = rng.randint(3, 4)
    deps = [[] for _ in range(n)]
    prio = [rng.choice([1, 2, 3]) for _ in range(n)]
    seq = [False] * n
    q = rng.randint(1, n)
    seq[q - 1] = True
    prio[q - 1] = 9
    res = [rng.choice(["thread", "thread", "async"]) for _ in range(n)]
    res[q - 1] = rng.choice(["thread", "thread", "async"])
    if n == 4 and rng.random() < 0.5:
        deps[3] = [rng.choice([1, 2, 3])]
    cfg = {"n": n, "deps": deps, "mc": rng.choice([2, 3]), "prio": prio, "seq": seq, "res": res, "bad": [],
           "act": [None] * n, "truthy": [True] * n, "setup": [False] * n, "debug": [False] * n, "run_debug": False,
           "ops": ["call"], "kw": [[False] * len(d) for d in deps], "fn": list(range(1, n + 1)), "profile": False,
           "flavour": rng.choice(["sync", "sync", "async"]), "patient": True}
    cfg["cid"] = cfg_key(cfg)
    return cfg


def seq_defer_config(rng):
    """A sequential node that becomes the best ready candidate while two or three pooled nodes are in flight, one of which
    releases a successor (that may outrank the sequential node) when it finishes: what happens next depends on the order of
    the completions - the deferral must look at the candidates again after EVERY completion (C05 / C06 / C08 / C09)."""
    k = rng.choice([2, 2, 3])
    nsucc = rng.randint(1, 2)
    n = k + 1 + nsucc
    deps = [[] for _ in range(n)]
    prio = [0] * n
    seq = [False] * n
    q = k + 1
    seq[q - 1] = True
    prio[q - 1] = rng.choice([4, 5])
    for r in range(1, k + 1):
        prio[r - 1] = rng.choice([20, 21, 22])
    for j in range(k + 2, n + 1):
        deps[j - 1] = [rng.randint(1, k)]
        prio[j - 1] = rng.choice([9, 7, 6, 2])          # mostly outranks the sequential node
        seq[j - 1] = rng.random() < 0.15
    res = [rng.choices(RESOURCES, weights=rng.choice([(8, 0, 1), (3, 4, 1), (0, 8, 1)]))[0] for _ in range(n)]
    for r in range(1, k + 1):
        if res[r - 1] == "main":
            res[r - 1] = "thread"                        # the nodes in flight are pooled
    cfg = {"n": n, "deps": deps, "mc": k + rng.choice([1, 1, 2]), "prio": prio, "seq": seq, "res": res, "bad": [],
           "act": [None] * n, "truthy": [True] * n, "setup": [False] * n, "debug": [False] * n, "run_debug": False,
           "ops": ["call"], "kw": [[False] * len(d) for d in deps], "fn": list(range(1, n + 1)), "profile": False,
           "flavour": rng.choice(["sync", "sync", "async"])}
    cfg["patient"] = rng.random() < 0.3
    cfg["cid"] = cfg_key(cfg)
    return cfg


# ------------------------------------------------------------------ projection of a run to traces
def project(cfg, run):
    """Split the event log of a history into one trace per execution (op) with its expected sets."""
    n = cfg["n"]
    deps = full_deps(cfg)
    setup = cfg.get("setup") or [False] * n
    off = expected_off(cfg)
    base = {"n": n, "mc": (cfg.get("reconf") or {}).get("mc") or cfg["mc"], "deps": deps, "cp": documented_cp(cfg), "seq": effective(cfg)[1],
            "res": cfg["res"], "argsrc": argsrc(cfg), "flavour": cfg.get("flavour", "sync")}
    done_setup = set()
    traces = []
    cur = None
    events = run["events"]
    for pos, ev in enumerate(events):
        if ev["e"] == "op":
            if ev["k"] == "setup":
                sel = [k for k in range(1, n + 1) if setup[k - 1] and k not in done_setup]
                op_now = cfg["ops"][sum(1 for e2 in events[:pos + 1] if e2["e"] in ("op", "op_skipped")) - 1] if cfg.get("ops") else "setup"
                if not isinstance(op_now, str) and op_now[0] == "setup" and op_now[1].get("r"):
                    # setup(root_nodes=R): the setup nodes that depend on R (R included)
                    reach = set(op_now[1]["r"])
                    grew = True
                    while grew:
                        grew = False
                        for k in range(1, n + 1):
                            if k not in reach and set(deps[k - 1]) & reach:
                                reach.add(k)
                                grew = True
                    sel = [k for k in sel if k in reach]
            elif ev["k"] == "exec":
                # the selection itself is engine E3's subject: take the executed graph as given and check scheduling on it
                sel = []
                for later in events[pos + 1:]:
                    if later["e"] == "exec_begin":
                        sel = [k for k in later["s"] if k]
                        break
                    if later["e"] == "op":
                        break
            else:
                dbg = cfg.get("debug") or [False] * n
                sel = [k for k in range(1, n + 1) if k not in done_setup and (cfg.get("run_debug") or not dbg[k - 1])]
            none = [k for k in range(1, n + 1) if k not in sel and k not in done_setup] if ev["k"] == "exec" else []
            cur = dict(base, op=ev["k"], sel=sel, off=[k for k in off if k in sel], none=none, ev=[])
            traces.append(cur)
        if cur is None or ev["e"] == "op_skipped":
            continue        # a skipped operation (caller error when the executor was created) belongs to no execution
        cur["ev"].append(ev)
        if ev["e"] == "return":
            done_setup |= {k for k in cur["sel"] if setup[k - 1]}
    return traces


# ------------------------------------------------------------------ exploration
def explore(cfg, max_runs=400, max_subset=None, max_bg=None, rng=None):
    """All schedules of the real scheduler for cfg (stateless DFS over controller decisions)."""
    import rt

    stack = [[]]
    out = []
    runs = 0
    complete = True
    nondet = 0
    if cfg.get("patient"):
        max_runs = min(max_runs, 5)        # every blocking wait of a patient run costs rt.PATIENCE seconds
    while stack:
        if runs >= max_runs:
            complete = False
            break
        script = stack.pop()
        run = rt.run_history(cfg, script, max_subset=max_subset, max_bg=max_bg)
        runs += 1
        for _ in range(3):
            if not run["diverged"]:
                break
            # the replay of the prefix went another way (racy arrival at a decision point): the trace is kept, it is a real
            # execution, and the script is tried again
            for t in project(cfg, run):
                t["script"] = [c for _, c in run["trail"]]
                t["anomalies"] = run["anomalies"]
                out.append(t)
            run = rt.run_history(cfg, script, max_subset=max_subset, max_bg=max_bg)
            runs += 1
        trail = run["trail"]
        if run["diverged"] or [c for _, c in trail[:len(script)]] != script:
            nondet += 1
            complete = False        # a branch of this configuration could not be reached again
        for p in range(len(script), len(trail)):
            for c in range(1, trail[p][0]):
                stack.append([x for _, x in trail[:p]] + [c])
        if rng is not None and len(stack) > 1:
            # bounded exploration samples the frontier instead of always following the newest branch
            j = rng.randrange(len(stack))
            stack[-1], stack[j] = stack[j], stack[-1]
        for t in project(cfg, run):
            t["script"] = [c for _, c in trail]
            t["anomalies"] = run["anomalies"]
            out.append(t)
        if any(e["e"] in ("hang", "stall") for e in run["events"]):
            # a run that hung or stalled cost its timeouts: one is enough to judge this configuration
            complete = False
            break
    return {"traces": out, "runs": runs, "complete": complete, "nondet": nondet}


def _work_ix(args):
    ix, rest = args
    try:
        return ix, _work(rest)
    finally:
        import common
        common.arm_exit_if_threads_are_stuck()


def _work(args):
    cfgs, opts, seed = args
    rng = random.Random(seed)
    res = []
    for cfg in cfgs:
        if opts.get("deadline") and time.time() > opts["deadline"]:
            # the time budget of the exploration is used up (a tree on which runs keep hanging): what was explored stands
            r = {"traces": [], "runs": 0, "complete": False, "nondet": 0, "skipped": True}
            r["cfg"] = cfg
            res.append(r)
            continue
        try:
            r = explore(cfg, opts.get("max_runs", 400), opts.get("max_subset"), opts.get("max_bg"), rng)
        except BaseException as e:  # noqa: BLE001
            r = {"traces": [], "runs": 0, "complete": False, "nondet": 0, "error": repr(e)}
        r["cfg"] = cfg
        res.append(r)
    return res


def run_configs(cfgs, opts, seed=0, procs=None, chunk=24):
    """Explore all configurations on a process pool; returns the list of per-configuration results."""
    procs = procs or min(16, os.cpu_count() or 4)
    chunks = [(cfgs[i:i + chunk], opts, seed + i) for i in range(0, len(cfgs), chunk)]
    out = []
    ctx = mp.get_context("fork")
    pool = ctx.Pool(procs, maxtasksperchild=1)        # one task per process: see common.arm_exit_if_threads_are_stuck
    got = set()
    wedged = False
    try:
        it = pool.imap_unordered(_work_ix, list(enumerate(chunks)))
        while len(got) < len(chunks):
            try:
                ix, res = it.next(timeout=60)
            except mp.TimeoutError:
                # past the budget every remaining configuration is skipped at once: a worker that has still not answered
                # five minutes later is stuck for good (seen with a change that left threads blocked in worker processes)
                if opts.get("deadline") and time.time() > opts["deadline"] + 300:
                    wedged = True
                    break
                continue
            except StopIteration:
                break
            got.add(ix)
            out.extend(res)
    finally:
        pool.terminate()
    pool.join()
    if wedged:
        for ix, (cs, _, _) in enumerate(chunks):
            if ix not in got:
                out.extend({"traces": [], "runs": 0, "complete": False, "nondet": 0, "skipped": True, "cfg": c} for c in cs)
    return out


if __name__ == "__main__":
    rng = random.Random(1)
    cfgs = small_configs(3, (1, 2), rng, sample=int(sys.argv[1]) if len(sys.argv) > 1 else 400, prios=True)
    t = time.time()
    res = run_configs(cfgs, {"max_runs": 300}, seed=1)
    nt = sum(len(r["traces"]) for r in res)
    print(len(cfgs), "configs", sum(r["runs"] for r in res), "runs", nt, "traces",
          sum(1 for r in res if not r["complete"]), "incomplete", sum(r["nondet"] for r in res), "nondet",
          [r.get("error") for r in res if r.get("error")][:3], round(time.time() - t, 1), "s")
    an = [a for r in res for tr in r["traces"] for a in tr["anomalies"]]
    print("anomalies", len(an), an[:5])
    json.dump({"traces": [dict(tr, tid=i + 1) for i, tr in enumerate(tr for r in res for tr in r["traces"])]},
              open("/tmp/e1traces.json", "w"))
