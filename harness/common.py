"""Shared plumbing of the checks: cache keys, evidence files, known findings, replay files."""
import glob
import hashlib
import json
import os
import sys
import time

VERIF = os.path.dirname(os.path.dirname(os.path.abspath(__file__)))
REPO = os.environ.get("VERIF_REPO", "/repo")
# every harness process observes the library through the guarded hooks: the guard must be set before
# tawazi is imported for the first time, and tawazi must come from the tree under test
os.environ["TAWAZI_VERIF"] = "1"
if REPO not in sys.path:
    sys.path.insert(0, REPO)
CACHE = os.path.join(VERIF, ".cache")
EVID = os.environ.get("VERIF_EVIDENCE_DIR") or os.path.join(VERIF, "evidence")
REPLAYS = os.path.join(os.environ["VERIF_EVIDENCE_DIR"], "replays") if os.environ.get("VERIF_EVIDENCE_DIR") else os.path.join(VERIF, "replays")
PY = "/venv/bin/python"


# asyncio reports "Task exception was never retrieved" for node failures the scheduler already re-raised: noise here
import logging  # noqa: E402

logging.getLogger("asyncio").setLevel(logging.CRITICAL)


def sha_files(paths):
    h = hashlib.sha256()
    for p in sorted(paths):
        h.update(p.encode())
        try:
            with open(p, "rb") as f:
                h.update(f.read())
        except OSError:
            h.update(b"<missing>")
    return h.hexdigest()


def repo_hash():
    return sha_files(glob.glob(os.path.join(REPO, "tawazi", "**", "*.py"), recursive=True))


def machinery_hash(parts=("spec", "harness")):
    files = []
    for p in parts:
        for ext in ("*.py", "*.tla", "*.cfg", "*.json"):
            files += glob.glob(os.path.join(VERIF, p, "**", ext), recursive=True)
    files.append(os.path.join(VERIF, "known_findings.json"))
    return sha_files(files)


def cache_get(engine, key):
    p = os.path.join(CACHE, f"{engine}-{key}.json")
    if os.environ.get("VERIF_NOCACHE") == "1":
        return None
    try:
        with open(p) as f:
            return json.load(f)
    except (OSError, ValueError):
        return None


def cache_put(engine, key, value):
    os.makedirs(CACHE, exist_ok=True)
    for old in glob.glob(os.path.join(CACHE, f"{engine}-*.json")):
        try:
            if time.time() - os.path.getmtime(old) > 6 * 3600:
                os.remove(old)
        except OSError:
            pass
    tmp = os.path.join(CACHE, f".{engine}-{key}.{os.getpid()}.tmp")
    with open(tmp, "w") as f:
        json.dump(value, f)
    os.replace(tmp, os.path.join(CACHE, f"{engine}-{key}.json"))


def known_findings():
    with open(os.path.join(VERIF, "known_findings.json")) as f:
        return json.load(f)


def match_known(prop, engine, sig):
    """Return the known entry whose signature is matched by `sig` (all keys equal / contained)."""
    for k in known_findings().get("known", []):
        if k["property"] != prop or k.get("engine") != engine:
            continue
        ok = True
        for key, want in k["signature"].items():
            have = sig.get(key)
            if isinstance(want, list):
                ok = ok and have in want
            else:
                ok = ok and have == want
        if ok:
            return k
    return None


def write_replay(prop, payload):
    os.makedirs(REPLAYS, exist_ok=True)
    body = json.dumps(payload, sort_keys=True)
    name = f"{prop}-{hashlib.sha1(body.encode()).hexdigest()[:10]}.json"
    path = os.path.join(REPLAYS, name)
    with open(path, "w") as f:
        f.write(body)
    return path


def write_evidence(prop, tier, seed, level, coverage, assumptions, wall, violations, extra=None):
    os.makedirs(EVID, exist_ok=True)
    ev = {"property_id": prop, "tier": tier, "seed": int(seed), "level": level, "coverage": coverage,
          "assumptions": assumptions, "wall_s": round(float(wall), 2), "violations": int(violations)}
    if extra:
        ev.update(extra)
    with open(os.path.join(EVID, f"{prop}.json"), "w") as f:
        json.dump(ev, f, indent=1)
    return ev


def assert_hooks():
    """The library under test is the one in REPO and its hooks are on (else every observation is empty)."""
    import tawazi
    from tawazi import _verif

    if not os.path.realpath(tawazi.__file__).startswith(os.path.realpath(REPO)):
        die_machinery(f"tawazi imported from {tawazi.__file__}, not from {REPO}")
    if not _verif.ENABLED:
        die_machinery("tawazi was imported with the TAWAZI_VERIF guard off")


def say(*a):
    print(*a, flush=True)


def die_machinery(msg):
    say(f"MACHINERY-FAILURE: {msg}")
    sys.exit(2)


def arm_exit_if_threads_are_stuck(grace=60.0):
    """For pool workers that handle ONE task (maxtasksperchild=1), called at the end of the task: a worker process joins its
    non-daemon threads before it exits, so a thread that a broken tree left blocked (or spinning) for good would keep the
    process alive for ever, and the pool - which replaces a worker only once it is gone - would starve.  If such threads
    exist, the process is ended `grace` seconds later (the result of the task has long been sent by then)."""
    import threading

    stuck = [t for t in threading.enumerate() if t is not threading.main_thread() and t.is_alive() and not t.daemon]
    if not stuck:
        return False
    timer = threading.Timer(grace, os._exit, (0,))
    timer.daemon = True
    timer.start()
    return True
